"""C12 - edge collapse preserves the persistent homology of the flag filtration."""
import itertools, json, os
from vlib import core

LEVEL = "other"
EXPLANATION = (
    "Partial proof + differential exploration.  Proved in Coq for every input (any size, any order of the edge vector, ties "
    "included) about a faithful transcription of Flag_complex_edge_collapser::process_edges: the sweep terminates; every returned edge "
    "is an input edge with a value >= its input value; every returned value is the value of an input edge; no edge is returned twice; "
    "on every simple graph the default and the GUDHI_COLLAPSE_USE_DENSE_ARRAY variants return the same list (the dense table is shown "
    "to stay a copy of the sorted neighbourhoods); common_neighbors / is_dominated_by compute exactly the common neighbours at a time / "
    "the edge-domination predicate N(e) subset N[c]; every edge is delayed or dropped only across times at which it is dominated in the "
    "current graph (the hypothesis of the edge-collapse theorem holds at every step: C12_every_move_is_a_dominated_edge_partial); and, "
    "as the dimension-0 part of the conclusion, the returned graph has at every time the same connected components as the input "
    "(C12_collapse_preserves_components_partial).  The decisive clause in dimensions >= 1 - a dominated-edge move does not change "
    "the persistence module (Boissonnat-Pritam / Glisse-Pritam) - is NOT formalised (Definition C12_collapse_preserves_barcode_full "
    ": Prop).  It is measured: for every generated graph the extracted, certified pairing oracle (certified_lows of ReduceExec.v, "
    "proved canonical for every prime) computes the diagrams over Z_2 and Z_3, in every dimension up to the clique number, of the input "
    "flag filtration and of the flag filtration of the edges returned by each of the 10 C++ build variants (8 plain, 2 under ASan+UBSan) and by the model, and they "
    "must be equal; the returned edge list is compared exactly with the model's.")
MANIFEST = dict(
    cat="other",
    tech="Coq theorems about a transcription of the collapse sweep (termination / subset / monotone values / no duplicates / table "
         "variants agree / every move is a dominated-edge move / connected components preserved at every time) + differential run of the C++ (10 build variants) against the extracted model, persistence diagrams before/after "
         "compared through the certified pairing oracle over Z_2 and Z_3",
    text="The structural clauses of the property, the hypothesis of the edge-collapse theorem at every step and the dimension-0 "
         "conclusion (components) are proved for all inputs of the algorithm model; the model is tied to the C++ by exact "
         "comparison of the surviving edge lists on generated graphs (<= 10 vertices: complete, sparse, repeated weights, relabelled, "
         "already minimal, late domination) under every build variant; preservation of the persistence diagram (a literature theorem, "
         "not formalised) is measured on every case in every dimension up to the clique number with a pairing oracle proved canonical.",
    note="Trusted: Coq kernel, extraction + OCaml driver, the hand transcription (validated by the differential run), the harness, "
         "pivot pairing = interval decomposition, the edge-collapse theorem itself (measured, not proved).  The heap of later neighbours "
         "is modelled as minimum+partition; std::sort's tie order is observed, not modelled.",
    ref="design/C12.md")
CORRESPONDENCE = ("coq/C12_Model.v (extracted: ocaml/c12_oracle.ml) vs harness/c12_drv.cpp: surviving edge list compared exactly, "
                  "persistence diagrams of input and output flag filtrations compared")
TRUSTED = [
    "Coq 8.16.1 kernel (coqc, full .vo build)",
    "extraction (ExtrOcamlBasic only; Z/positive stay inductive) + OCaml 4.13.1 + ocaml/prelude.ml, ocaml/c12_oracle.ml",
    "hand-written algorithm model coq/C12_Model.v of read_edges/common_neighbors/is_dominated_by/process_edges (min-heap of later "
    "neighbours abstracted to minimum+partition); tied to the C++ by the differential run, not by translation",
    "hand-written specification model (clique enumeration, filtration order, boundary matrix) feeding certified_lows of coq/ReduceExec.v",
    "harness/c12_drv.cpp, g++ 12.2, TBB; the processing order of tied edges is taken from the same std::sort/tbb::parallel_sort call "
    "on an identical vector (double builds) and observed from inside through the Delay functor (tagged-value builds)",
    "mathematics not formalised: pivot pairing of the boundary matrix = persistence diagram; the edge-collapse theorem "
    "(Boissonnat-Pritam 2020, Glisse-Pritam 2022) - measured on every generated case, not proved",
]
ASSUMPTIONS = [
    "inputs are simple graphs: no repeated edge (in either orientation), no loop, vertex labels >= 0, finite values",
    "filtration values are integers (exact in double); vertices enter the flag filtration at a value below every edge",
    "diagrams are compared over Z_2 and Z_3 only",
    "complexes of more than the per-case simplex budget are truncated: dimensions 0..D are compared with D the largest dimension "
    "whose (D+1)-skeleton fits the budget (recorded per case in the distribution)",
]

VARIANTS = []
for tagged in (0, 1):
    for dense in (0, 1):
        for tbb in (0, 1):
            tag = ("t" if tagged else "d") + ("D" if dense else "S") + ("T" if tbb else "N")
            fl = (["-DC12_TAGGED"] if tagged else []) + (["-DGUDHI_COLLAPSE_USE_DENSE_ARRAY"] if dense else []) + \
                 (["-DGUDHI_USE_TBB"] if tbb else [])
            VARIANTS.append((tag, fl))
# two more builds of the double variants under AddressSanitizer + UBSan (memory errors / UB show up as DIED lines)
VARIANTS.append(("aSN", ["-fsanitize=address,undefined", "-fno-sanitize-recover=all", "-fno-omit-frame-pointer", "-D_GLIBCXX_SANITIZE_VECTOR"]))
VARIANTS.append(("aDN", ["-fsanitize=address,undefined", "-fno-sanitize-recover=all", "-fno-omit-frame-pointer", "-D_GLIBCXX_SANITIZE_VECTOR",
                         "-DGUDHI_COLLAPSE_USE_DENSE_ARRAY"]))
VAR_DESC = "a = double under ASan+UBSan; d/t = Filtration_value double / index-tagged double; S/D = default / dense neighbour table; N/T = std::sort / tbb::parallel_sort (the T builds are release builds: NDEBUG)"


# ------------------------------------------------------------------------------------------- graphs
def clique_counts(edges):
    """number of cliques by dimension (index = dim), on the vertex set 0..max label"""
    n = max([max(u, v) for (u, v, _) in edges], default=0) + 1
    adj = {i: set() for i in range(n)}
    for (u, v, _) in edges:
        adj[u].add(v)
        adj[v].add(u)
    counts = [n]
    cur = [((i,), adj[i] & set(range(i))) for i in range(n)]
    while True:
        nxt = []
        for (s, cand) in cur:
            for w in cand:
                nxt.append(((w,) + s, cand & adj[w] & set(range(w))))
        if not nxt:
            break
        counts.append(len(nxt))
        cur = nxt
    return counts


SKEL2_LIMIT = {"quick": 130, "thorough": 200}
TIER = ["quick"]


def choose_cap(edges, budget):
    """largest D such that the (D+1)-skeleton has <= budget simplices; full = the whole complex fits"""
    if budget <= 0:
        return -1, 0, False
    c = clique_counts(edges)
    top = len(c) - 1
    tot = 0
    last = -1
    for d, k in enumerate(c):
        if tot + k > budget:
            break
        tot += k
        last = d
    if last >= top:
        return max(top, 0), tot, True
    if last < 2 and sum(c[:3]) <= SKEL2_LIMIT[TIER[0]]:          # always compare H_0 and H_1 (the 2-skeleton of K_10 has 175 simplices)
        return 1, sum(c[:3]), len(c) <= 3
    return max(last - 1, 0), tot, False


def relabel(rng, edges, spread):
    vs = sorted({x for (u, v, _) in edges for x in (u, v)})
    labels = rng.sample(range(max(len(vs), spread)), len(vs))
    m = dict(zip(vs, labels))
    out = []
    for (u, v, w) in edges:
        a, b = m[u], m[v]
        if rng.random() < 0.5:
            a, b = b, a
        out.append((a, b, w))
    rng.shuffle(out)
    return out


def weights(rng, m, style):
    if style == "distinct":
        w = list(range(1, m + 1))
        rng.shuffle(w)
        return w
    if style == "equal":
        return [rng.choice((0, 1, 5))] * m
    if style == "two":
        return [rng.choice((1, 2)) for _ in range(m)]
    if style == "three":
        return [rng.choice((-1, 0, 3)) for _ in range(m)]
    if style == "few":
        k = rng.randint(2, 5)
        return [rng.randint(1, k) for _ in range(m)]
    if style == "wide":
        pool = [-(1 << 40), -(1 << 40) + 1, -5, 0, 7, (1 << 40), (1 << 40) + 1, (1 << 44) + 3]
        return [rng.choice(pool) for _ in range(m)]
    return [rng.randint(-3, max(3, m // 2)) for _ in range(m)]


W_STYLES = ["distinct", "equal", "two", "three", "few", "some", "wide"]


def g_complete(rng, n, style):
    prs = list(itertools.combinations(range(n), 2))
    ws = weights(rng, len(prs), style)
    return [(u, v, w) for (u, v), w in zip(prs, ws)]


def g_sparse(rng, n, p, style):
    prs = [e for e in itertools.combinations(range(n), 2) if rng.random() < p]
    ws = weights(rng, len(prs), style)
    return [(u, v, w) for (u, v), w in zip(prs, ws)]


def g_rips(rng, n, grid, thr):
    pts = [(rng.randint(0, grid), rng.randint(0, grid)) for _ in range(n)]
    es = []
    for i, j in itertools.combinations(range(n), 2):
        d = (pts[i][0] - pts[j][0]) ** 2 + (pts[i][1] - pts[j][1]) ** 2
        if d <= thr:
            es.append((i, j, d))
    return es


def g_cycle(rng, n, style, chords=0):
    prs = [(i, (i + 1) % n) for i in range(n)]
    allp = [e for e in itertools.combinations(range(n), 2) if e not in prs and (e[1], e[0]) not in prs]
    prs += rng.sample(allp, min(chords, len(allp)))
    ws = weights(rng, len(prs), style)
    return [(u, v, w) for (u, v), w in zip(prs, ws)]


def g_tree(rng, n, style):
    prs = [(rng.randrange(i), i) for i in range(1, n)]
    ws = weights(rng, len(prs), style)
    return [(u, v, w) for (u, v), w in zip(prs, ws)]


def g_cross(rng, k, style):
    """cross-polytope K_{2,...,2} on 2k vertices (a (k-1)-sphere: no edge is dominated)"""
    prs = [(i, j) for i, j in itertools.combinations(range(2 * k), 2) if j != i + k]
    ws = weights(rng, len(prs), style)
    return [(u, v, w) for (u, v), w in zip(prs, ws)]


def g_cone(rng, base, lo, hi):
    """apex joined to every vertex of the base at (mostly later) times: domination shows up only after later edges"""
    vs = sorted({x for (u, v, _) in base for x in (u, v)})
    a = (max(vs) + 1) if vs else 0
    return list(base) + [(x, a, rng.randint(lo, hi)) for x in vs]


def g_late(rng):
    """hand-shaped: an edge e with common neighbours appearing at staggered later times, dominators that stop dominating"""
    t = rng.randint(1, 3)
    es = [(0, 1, t)]
    k = rng.randint(2, 5)
    times = sorted(rng.randint(t, t + 4) for _ in range(k))
    for i, ti in enumerate(times):
        w = 2 + i
        es.append((0, w, rng.randint(1, ti)))
        es.append((1, w, ti))
    # edges among the common neighbours decide who dominates whom and until when
    for i, j in itertools.combinations(range(2, 2 + k), 2):
        if rng.random() < 0.6:
            es.append((i, j, rng.randint(1, t + 5)))
    return es


def g_hub(rng, style):
    """very unbalanced degrees: a hub with 17..44 pendant leaves (its closed neighbourhood is more than 8 times larger than the
    others') plus a small structure through the hub: cycles, diagonals, triangles, low-degree vertices sharing neighbours with it"""
    k = rng.randint(17, 44)
    hub = 0
    prs = [(hub, i) for i in range(1, k + 1)]
    nxt = k + 1
    for _ in range(rng.randint(1, 4)):
        kind = rng.choice(("cycle", "diag", "triangle", "leafleaf", "fan"))
        if kind == "cycle":          # a 4- or 5-cycle through the hub and fresh low-degree vertices
            m = rng.randint(3, 4)
            vs = list(range(nxt, nxt + m)); nxt += m
            prs += [(hub, vs[0])] + [(vs[i], vs[i + 1]) for i in range(m - 1)] + [(vs[-1], hub)]
        elif kind == "diag":         # square hub-a-b-c with the diagonal a-c or hub-b
            a, b, c = nxt, nxt + 1, nxt + 2; nxt += 3
            prs += [(hub, a), (a, b), (b, c), (c, hub), rng.choice(((a, c), (hub, b)))]
        elif kind == "triangle":     # two leaves joined: a triangle through the hub
            a, b = rng.sample(range(1, k + 1), 2)
            prs.append((min(a, b), max(a, b)))
        elif kind == "leafleaf":     # a path between two leaves through fresh vertices: a cycle through the hub
            a, b = rng.sample(range(1, k + 1), 2)
            m = rng.randint(1, 2)
            vs = [a] + list(range(nxt, nxt + m)) + [b]; nxt += m
            prs += [(vs[i], vs[i + 1]) for i in range(len(vs) - 1)]
        else:                        # a low-degree vertex adjacent to a few leaves (common neighbours not adjacent to each other)
            a = nxt; nxt += 1
            prs += [(l, a) for l in rng.sample(range(1, k + 1), rng.randint(2, 3))]
            if rng.random() < 0.5:
                prs.append((hub, a))
    prs = sorted({(min(u, v), max(u, v)) for (u, v) in prs if u != v})
    ws = weights(rng, len(prs), style)
    return [(u, v, w) for (u, v), w in zip(prs, ws)]


def generate(rng, tier):
    """list of (family, edges, budget)"""
    th = tier == "thorough"
    cases = []

    def add(fam, es, budget=64, rl=None):
        if rl is None:
            rl = rng.random() < 0.5
        if rl and es:
            es = relabel(rng, es, rng.choice((0, 0, 12, 16)))
            fam += "+relabel"
        else:
            es = list(es)
            if rng.random() < 0.7:
                rng.shuffle(es)
        cases.append((fam, es, budget))

    # trivial / tiny
    add("empty", [], rl=False)
    add("single-edge", [(0, 1, 3)], rl=False)
    add("single-edge", [(4, 2, -7)], rl=False)
    add("two-components", [(0, 1, 1), (2, 3, 1)], rl=False)
    for st in W_STYLES:
        for n in (3, 4):
            add("complete-%d:%s" % (n, st), g_complete(rng, n, st))
    # exhaustive small domains: every graph on 4 vertices with values in {1,2} (thorough: {1,2,3}; and every unweighted
    # graph on 5 vertices)
    prs4 = list(itertools.combinations(range(4), 2))
    for ws in itertools.product(range(0, 4 if th else 3), repeat=6):
        es = [(u, v, w) for (u, v), w in zip(prs4, ws) if w]
        if es:
            add("exhaustive-4", es, rl=False)
    if th:
        prs5 = list(itertools.combinations(range(5), 2))
        for ws in itertools.product((0, 1), repeat=10):
            es = [(u, v, w) for (u, v), w in zip(prs5, ws) if w]
            if es:
                add("exhaustive-5-unweighted", es, rl=False)
    rep = 16 if th else 3
    for _ in range(rep * 10):
        for st in W_STYLES:
            add("complete-5:" + st, g_complete(rng, 5, st))
    for _ in range(rep * 5):
        for st in W_STYLES:
            add("complete-6:" + st, g_complete(rng, 6, st))
    for _ in range((rep + 2) // 3 * 2):
        for st in ("distinct", "two", "few"):
            add("complete-7:" + st, g_complete(rng, 7, st), budget=130)
    for n in (8, 9, 10):
        for st in (("two", "some", "distinct") if th else ("few",)):
            add("complete-%d:%s" % (n, st), g_complete(rng, n, st), budget=190 if th else {8: 100, 9: 130, 10: 60}[n])
    # sparse
    for _ in range(rep * 70):
        n = rng.randint(4, 10)
        p = rng.choice((0.2, 0.3, 0.4, 0.5, 0.6, 0.7, 0.85))
        add("sparse-%d" % n, g_sparse(rng, n, p, rng.choice(W_STYLES)), budget=72)
    for _ in range((rep + 2) // 3 * 6):
        n = rng.randint(8, 10)
        add("dense-%d" % n, g_sparse(rng, n, rng.choice((0.7, 0.8, 0.9)), rng.choice(W_STYLES)), budget=110 if th else 90)
    # Rips graphs (squared integer distances, many ties on small grids)
    for _ in range(rep * 30):
        n = rng.randint(4, 10)
        grid = rng.choice((2, 3, 5, 9))
        add("rips-%d" % n, g_rips(rng, n, grid, rng.choice((2, 5, 10, 20, 200))), budget=72)
    # already minimal
    for _ in range(rep * 6):
        add("cycle", g_cycle(rng, rng.randint(4, 10), rng.choice(W_STYLES)))
        add("cycle+chords", g_cycle(rng, rng.randint(5, 10), rng.choice(W_STYLES), chords=rng.randint(1, 3)))
        add("tree", g_tree(rng, rng.randint(2, 10), rng.choice(W_STYLES)))
    for k in (2, 3):
        for st in W_STYLES:
            add("cross-polytope-%d" % k, g_cross(rng, k, st))
    for st in (W_STYLES if th else ("two", "distinct")):
        add("cross-polytope-4", g_cross(rng, 4, st), budget=90)
    # late domination
    for _ in range(rep * 40):
        add("late-domination", g_late(rng), budget=72)
    for _ in range(rep * 20):
        base = rng.choice((g_cycle(rng, rng.randint(4, 7), "few"), g_cross(rng, rng.choice((2, 3)), "few"),
                           g_sparse(rng, rng.randint(4, 8), 0.5, "few"), g_tree(rng, rng.randint(3, 8), "few")))
        add("cone", g_cone(rng, base, rng.randint(1, 4), rng.randint(4, 8)), budget=80)
    for _ in range(rep * 8):
        base = g_cone(rng, g_cycle(rng, rng.randint(4, 6), "few"), 3, 6)
        add("double-cone", g_cone(rng, base, 2, 9), budget=80)
    # hubs: closed neighbourhoods of very different sizes (the clique complex stays small: diagrams are compared in full)
    for _ in range(rep * 10):
        add("hub", g_hub(rng, rng.choice(W_STYLES)), budget=400)
    # larger graphs (up to 30 vertices, 435 edges): too large for the dense pairing oracle; the returned list is compared with the
    # model exactly and the connected components at every threshold are compared before/after (budget 0 = no diagrams)
    for _ in range(rep * 12):
        n = rng.randint(11, 30)
        p = rng.choice((0.1, 0.2, 0.35, 0.5, 0.8, 1.0))
        fam = rng.choice(("sparse", "rips"))
        if fam == "sparse":
            add("large-%s" % ("11-20" if n <= 20 else "21-30"), g_sparse(rng, n, p, rng.choice(W_STYLES)), budget=0)
        else:
            add("large-rips-%s" % ("11-20" if n <= 20 else "21-30"), g_rips(rng, n, rng.choice((3, 6, 12)), rng.choice((5, 20, 80))), budget=0)
    return cases


def components_profile(edges):
    """canonical description of the connected components of the graph at every threshold (union-find)"""
    if not edges:
        return ()
    n = max(max(u, v) for (u, v, _) in edges) + 1
    parent = list(range(n))

    def find(x):
        while parent[x] != x:
            parent[x] = parent[parent[x]]
            x = parent[x]
        return x
    out = []
    es = sorted(edges, key=lambda e: e[2])
    i = 0
    while i < len(es):
        w = es[i][2]
        merged = False
        while i < len(es) and es[i][2] == w:
            a, b = find(es[i][0]), find(es[i][1])
            if a != b:
                parent[a] = b
                merged = True
            i += 1
        if merged:
            out.append((w, tuple(sorted(tuple(sorted(x for x in range(n) if find(x) == r)) for r in {find(x) for x in range(n)}))))
    return tuple(out)


# ------------------------------------------------------------------------------------------- running
def scaled(es):
    """every fourth case (by a hash of its edges) is fed to the C++ with its values divided by 8"""
    return len(es) > 0 and (sum((u * 31 + v * 17 + w) for (u, v, w) in es) % 4 == 0)


def unit(es):
    """g: the values as they are; gs: divided by 8; gt / gh: times 2^-60 / 2^40 (one case in 16 each); go: plus 2^26 (one case in
    8: the values then need more than the 24 significant bits of a float, distinct values stay distinct only in double
    precision; the property is invariant under translation of the values); a function of the edges"""
    if not es:
        return "g"
    h = sum((u * 31 + v * 17 + w) for (u, v, w) in es)
    if any(abs(w) > (1 << 20) for (_, _, w) in es):          # wide values keep their unit (2^44 * 2^40 would leave the exact range)
        return "gs" if h % 4 == 0 else "g"
    return "gs" if h % 4 == 0 else "gt" if h % 16 == 1 else "gh" if h % 16 == 2 else "go" if h % 16 in (3, 7) else "g"


def gline(es):
    return (unit(es) + " " + " ".join("%d %d %d" % e for e in es)).strip()


def tie_shuffles(rng, es, k):
    """k processing orders: non-increasing values, ties permuted at random"""
    outs = []
    for _ in range(k):
        idx = list(range(len(es)))
        rng.shuffle(idx)
        idx.sort(key=lambda i: -es[i][2])
        outs.append(idx)
    return outs


def run_harnesses(bins, cases):
    """dict tag -> list of answer strings (one per case)"""
    lines = [gline(es) for (_, es, _) in cases]
    chunks = [lines[i:i + 400] for i in range(0, len(lines), 400)] or [[]]
    jobs = [(tag, ci) for (tag, _) in VARIANTS if tag in bins for ci in range(len(chunks))]

    def work(j):
        tag, ci = j
        # a chunk normally takes well under a second; a hang (e.g. a loop that no longer advances) costs one timeout per restart
        r = core.run_grouped(bins[tag], [("g", chunks[ci])], timeout=900, max_restarts=2, cpu=30)   # 30 s of CPU, wall time only as a backstop
        return tag, ci, r[0][1]
    out = {tag: [None] * len(chunks) for (tag, _) in VARIANTS if tag in bins}
    for tag, ci, ans in core.parallel_map(work, jobs, workers=16):
        out[tag][ci] = ans
    return {tag: [a for ch in out[tag] for a in ch] for tag in out}


def run_oracle(orc, olines, costs):
    """answers in order; chunks balanced by estimated cost"""
    nw = 8
    order = sorted(range(len(olines)), key=lambda i: -costs[i])
    loads = [0.0] * nw
    chunks = [[] for _ in range(nw)]
    for i in order:
        k = loads.index(min(loads))
        chunks[k].append(i)
        loads[k] += costs[i] + 1e-3
    res = [None] * len(olines)

    def work(idx):
        r = core.run_grouped(orc, [("c 0||||", [olines[i] for i in idx])], timeout=3000)
        return idx, r[0][1]
    for idx, ans in core.parallel_map(work, [c for c in chunks if c], workers=nw):
        for i, a in zip(idx, ans):
            res[i] = a
    return res


def parse_h(ans):
    """harness answer -> (order string, result string) or None"""
    if ans is None or not ans.startswith("ORD") or "|RES" not in ans:
        return None
    a, b = ans.split("|RES", 1)
    return a[3:].strip(), b.strip()


def evaluate(ctx, res, bins, orc, cases, record=True):
    """run every variant + the oracle on the cases; returns list of (case index, kind, what, variant, expected, observed)"""
    hs = run_harnesses(bins, cases)
    olines, costs, owner = [], [], []
    viol = []
    per_case = []
    for ci, (fam, es, budget) in enumerate(cases):
        cap, nsimp, full = choose_cap(es, budget)
        groups = {}
        for (tag, _) in VARIANTS:
            if tag not in hs:
                continue
            p = parse_h(hs[tag][ci])
            if p is None:
                viol.append((ci, "crash-or-exception", "variant %s crashed, hung (30 s timeout) or threw: answer %r" % (tag, hs[tag][ci]), tag, "ORD ...|RES ...", hs[tag][ci]))
                continue
            groups.setdefault(p, []).append(tag)
        # the order seen from inside (tagged builds) must be the order of the replicated sort (double builds)
        for dense in "SD":
            for tbb in "NT":
                if "d" + dense + tbb not in hs or "t" + dense + tbb not in hs:
                    continue
                a, b = parse_h(hs["d" + dense + tbb][ci]), parse_h(hs["t" + dense + tbb][ci])
                if a and b and a[0] != b[0]:
                    viol.append((ci, "processing-order-not-reproduced", "order observed through the Delay functor differs from the replicated sort "
                                 "(variant %s%s)" % (dense, tbb), "t" + dense + tbb, a[0], b[0]))
        if len({p[1] for p in groups}) > 1:
            viol.append((ci, "build-variants-disagree", "the build variants return different edge lists: %s" %
                         "; ".join("%s -> %s" % (",".join(t), p[1]) for p, t in groups.items()), "all", None,
                         {",".join(t): p[1] for p, t in groups.items()}))
        per_case.append((cap, nsimp, full, groups))
        first = True
        for p, tags in groups.items():
            alts = tie_shuffles(ctx.rng, es, 2) if (first and len(es) > 1) else []
            olines.append("c %d|%s|%s|%s|%s" % (cap, " ".join("%d %d %d" % e for e in es), p[0], p[1],
                                                 "/".join(" ".join(map(str, a)) for a in alts)))
            costs.append(0.02 + (nsimp / 100.0) ** 4 * (2.5 if first else 1.0))
            owner.append((ci, p, tags))
            first = False
    if record:
        ctx.log("harness runs done; %d oracle lines" % len(olines))
    oans = run_oracle(orc, olines, costs)
    if record:
        ctx.log("oracle done")
    for (ci, p, tags), a, ol in zip(owner, oans, olines):
        fam, es, budget = cases[ci]
        vtag = tags[0]
        if a is None or not a.startswith("ORDER"):
            viol.append((ci, "oracle-failure", "the oracle answered %r" % (a,), vtag, "ORDER ...", a))
            continue
        f = dict(x.split(" ", 1) if " " in x else (x, "") for x in a.split(";"))
        res.traces_validated += len(tags)
        if f["ORDER"] != "ok":
            viol.append((ci, "processing-order-not-sorted", "the processing order is not a permutation of the input with non-increasing "
                         "values: %s" % p[0], vtag, "sorted permutation", p[0]))
        if "CERTFAIL" in a or "FUEL" in a:
            viol.append((ci, "oracle-failure", "certificate or fuel failure: %s" % a[:300], vtag, None, a))
            continue
        ms = f["MS"]
        md = ms if f["MD"] == "=" else f["MD"]
        if md != ms:
            viol.append((ci, "model-table-variants-disagree", "model: default table gives %s, dense table gives %s" % (ms, md), vtag, ms, md))
        for t in tags:
            want = md if t[1] == "D" else ms
            if p[1] != want and f["ORDER"] == "ok":
                viol.append((ci, "edge-list-differs-from-model", "variant %s returns [%s], the algorithm model [%s]" % (t, p[1], want), t, want, p[1]))
        if f["SPEC"] != "ok":
            viol.append((ci, "output-edge-not-input-or-value-lowered", "variant %s returns [%s]: some edge is not an input edge, or its value is "
                         "below its input value / not an input value, or an edge is repeated" % (vtag, p[1]), vtag, "out_ok = true", p[1]))
        if per_case[ci][0] < 0:
            r = p[1].split()
            outg = [(int(r[k]), int(r[k + 1]), int(r[k + 2])) for k in range(0, len(r), 3)]
            n_in = max(max(u, v) for (u, v, _) in es) + 1
            pin = components_profile(es)
            pout = components_profile(outg + [(n_in - 1, n_in - 1, min(w for (_, _, w) in es))])
            if pin != pout:
                viol.append((ci, "components-changed", "variant(s) %s: the connected components of the returned graph differ from the "
                             "input's at some threshold" % ",".join(tags), vtag, str(pin)[:300], str(pout)[:300]))
        if f["DOUT"] != "=":
            viol.append((ci, "persistence-diagram-changed", "variant(s) %s: diagram of the input flag filtration %s, of the output %s (dims 0..%d)"
                         % (",".join(tags), f["DIN"], f["DOUT"], per_case[ci][0]), vtag, f["DIN"], f["DOUT"]))
        if f["DMS"] != "=":
            viol.append((ci, "model-diagram-changed", "the model's output [%s] has diagram %s, the input %s" % (ms, f["DMS"], f["DIN"]),
                         vtag, f["DIN"], f["DMS"]))
        if f["ALT"] != "ok":
            viol.append((ci, "model-diagram-changed-other-tie-order", "model on another admissible tie order: %s" % f["ALT"][:300], vtag, "ok", f["ALT"]))
        if record:
            res.evaluations += len(tags)
    if record:
        for ci, (fam, es, budget) in enumerate(cases):
            cap, nsimp, full, groups = per_case[ci]
            res.count("family:" + fam.split(":")[0].split("+")[0])
            if "+relabel" in fam:
                res.count("relabelled")
            res.count("edges:%s" % ("0" if not es else "1-5" if len(es) <= 5 else "6-15" if len(es) <= 15 else "16-30" if len(es) <= 30 else "31-45"))
            res.count("simplices:%s" % ("not-built" if cap < 0 else "<=16" if nsimp <= 16 else "<=64" if nsimp <= 64 else "<=130" if nsimp <= 130 else "<=190"))
            res.count(("dims-compared:0..%d%s" % (cap, "" if full else " (truncated)")) if cap >= 0 else "dims-compared:none (components only)")
            ws = [w for (_, _, w) in es]
            res.count("values-fed:%s" % {"g": "integers", "gs": "w/8 (dyadic)", "gt": "w * 2^-60", "gh": "w * 2^40", "go": "w + 2^26"}[unit(es)])
            res.count("ties:%s" % ("none" if len(set(ws)) == len(ws) else "all-equal" if len(set(ws)) == 1 else "heavy" if len(set(ws)) * 2 <= len(ws) else "some"))
            for p in groups:
                kept = len(p[1].split()) // 3
                res.count("outcome:%s" % ("nothing-removed" if kept == len(es) else "some-removed"))
                delayed = 0
                inp = {(u, v): w for (u, v, w) in es}
                r = p[1].split()
                for k in range(0, len(r), 3):
                    if inp.get((int(r[k]), int(r[k + 1]))) != int(r[k + 2]):
                        delayed += 1
                res.count("outcome:%s" % ("some-edge-delayed" if delayed else "no-edge-delayed"))
                break
    return viol


def shrink(ctx, bins, orc, case, kind, budget_runs=60):
    """greedy removal of edges while a violation of the same kind persists"""
    fam, es, budget = case
    es = list(es)
    runs = 0
    changed = True
    while changed and runs < budget_runs and len(es) > 1:
        changed = False
        cands = [(fam, es[:i] + es[i + 1:], budget) for i in range(len(es))]
        cands = cands[:max(1, budget_runs - runs)]
        runs += len(cands)
        v = evaluate(ctx, core.Result(), bins, orc, cands, record=False)
        hit = sorted({ci for (ci, k, *_r) in v if k == kind})
        if hit:
            es = cands[hit[0]][1]
            changed = True
    return (fam, es, budget)


def check(ctx, replay=None):
    res = core.Result()
    TIER[0] = ctx.tier
    if not getattr(ctx, "skip_proof", False):
        ctx.prove(["Extract_C12.vo"])
    # every variant is built on its own: a change of the header that no longer compiles with the harness's index-tagged value type
    # (or with one flag combination) must not stop the search for a failing input with the variants that still build; the
    # build failure itself is reported at the end (the correspondence no longer checks for that variant)
    bins, build_errors = {}, []

    def build_one(job):
        tag, fl = job
        try:
            return tag, ctx.build_harness("c12_drv.cpp", tag, list(fl) + (["-DNDEBUG"] if tag.endswith("T") else [])), None
        except core.CheckError as e:
            return tag, None, str(e)
    for tag, b, err in core.parallel_map(build_one, list(VARIANTS)):
        if b is not None:
            bins[tag] = b
        else:
            build_errors.append((tag, err))
    if not any(t in bins for t in ("dSN", "dDN", "dST", "dDT")):
        raise core.CheckError(build_errors[0][1])
    orc = ctx.build_oracle("c12")
    corpus = []
    cdir = os.path.join(core.ROOT, "corpus", "C12")
    if os.path.isdir(cdir):
        for f in sorted(os.listdir(cdir)):
            if f.endswith(".json"):
                c = json.load(open(os.path.join(cdir, f)))
                corpus.append(("corpus:" + f[:-5], [tuple(e) for e in c["edges"]], c.get("budget", 72)))
    if replay:
        c = replay["case"]
        cases = [(c.get("family", "replay"), [tuple(e) for e in c["edges"]], c.get("budget", 72))]
    else:
        cases = corpus + generate(ctx.rng, ctx.tier)
    ctx.log("%d cases, %d build variants (%s)" % (len(cases), len(VARIANTS), VAR_DESC))
    viol = evaluate(ctx, res, bins, orc, cases)
    seen_kinds = {}
    for (ci, kind, what, vtag, exp, obs) in viol:
        seen_kinds.setdefault(kind, []).append((ci, what, vtag, exp, obs))
    for (tag, err) in build_errors[:1]:
        res.violation("correspondence-build", "the harness no longer builds against the current source for the variant(s) %s (the other variants "
                      "were run): %s" % (", ".join(t for t, _ in build_errors), err[-1500:]), {"variants": [t for t, _ in build_errors]},
                      expected="harness builds", observed="build failed", no_input=True)
    PROPERTY_KINDS = {"persistence-diagram-changed", "components-changed", "output-edge-not-input-or-value-lowered", "crash-or-exception"}
    only_correspondence = not (set(seen_kinds) & PROPERTY_KINDS)
    for kind, lst in seen_kinds.items():
        lst.sort(key=lambda x: len(cases[x[0]][1]))
        ci, what, vtag, exp, obs = lst[0]
        small = cases[ci]
        if not replay and kind not in ("oracle-failure", "crash-or-exception"):
            small = shrink(ctx, bins, orc, cases[ci], kind)
            if small[1] != cases[ci][1]:
                v2 = [x for x in evaluate(ctx, core.Result(), bins, orc, [small], record=False) if x[1] == kind]
                if v2:
                    _, _, what, vtag, exp, obs = v2[0]
                else:
                    small = cases[ci]
        for k, (ci2, what2, vtag2, exp2, obs2) in enumerate(lst):
            cs = small if k == 0 else cases[ci2]
            res.violation(kind, what if k == 0 else what2,
                          {"family": cs[0], "edges": [list(e) for e in cs[1]], "budget": cs[2], "variant": vtag if k == 0 else vtag2,
                           "line": gline(cs[1])},
                          expected=exp if k == 0 else exp2, observed=obs if k == 0 else obs2,
                          no_input=(only_correspondence and kind in ("edge-list-differs-from-model", "build-variants-disagree",
                                                                     "processing-order-not-reproduced", "processing-order-not-sorted")))
    res.distinct = {tuple(es) for (_, es, _) in cases if len(es) >= 3}
    res.rule = ("one case = one weighted graph (edge list in input order); every case is run under the 10 build variants and every distinct "
                "(processing order, returned list) goes through the oracle; distinct non-trivial = distinct edge lists with at least 3 edges; "
                "evaluations = case x build variant (8 plain + 2 sanitizer builds)")
    res.samples = [{"family": cases[i][0], "edges": [list(e) for e in cases[i][1]]} for i in sorted(ctx.rng.sample(range(len(cases)), min(8, len(cases))))]
    res.count("build-variants", len(VARIANTS))
    res.notes.append("build variants: " + ", ".join(t for t, _ in VARIANTS) + " (" + VAR_DESC + ")")
    res.notes.append("exhaustive sub-domain this run: every non-empty graph on 4 vertices with edge values in %s%s" % (
        "{1,2,3}" if ctx.tier == "thorough" else "{1,2}", "; every non-empty unweighted graph on 5 vertices" if ctx.tier == "thorough" else ""))
    res.notes.append("the model is additionally run on 2 random admissible tie orders per case; its output must keep the diagram")
    return core.finish(ctx, None, res, TRUSTED, ASSUMPTIONS, LEVEL,
                       "cd /verif/coq && make -f Makefile.coq Properties_C12.vo  (coqc 8.16.1; Print Assumptions after every theorem)",
                       explanation=EXPLANATION, correspondence_name=CORRESPONDENCE)
