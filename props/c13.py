"""C13 - cubical complexes are valid filtered cell complexes with correct incidences."""
import itertools, json, math, os
from vlib import core

LEVEL = "proof"
MANIFEST = dict(
    cat="proof",
    tech="Coq proofs (all shapes, all dimensions, unbounded) that the transcribed index arithmetic refines the coordinate-level "
         "cubical complex + exhaustive differential correspondence (all shapes of <= 3 directions with sides <= 4, all periodic masks, "
         "both input conventions) + certified boundary-matrix reduction as persistence oracle",
    text="Coq theorems: index<->coordinate bijection; the index-level boundary/coboundary/dimension of both classes equal the "
         "coordinate-level ones; boundary of boundary is zero with the signs alternating along the enumeration; boundary and coboundary "
         "are converse; compute_incidence_between_cells equals the geometric incidence and the enumeration sign up to (-1)^dim; the "
         "propagation loop computes the minimum over the top cells above a cell; the filtration order is a strict total order whose "
         "sorted arrangement is unique, non-decreasing and faces-first.  The hand transcription is tied to the C++ on every run by "
         "comparing every cell's boundary, coboundary, incidences, value, dimension, the filtration range, the iterators and "
         "Persistent_cohomology (p = 2, 3, 11, against the certified reduction of ReduceExec.v) and the Betti numbers of the periodic "
         "grids, exhaustively over the small shapes; the specification is evaluated on the implementation's output as well.",
    note="Trusted: Coq kernel, extraction + OCaml driver, the hand transcription coq/C13_Model.v (validated by the exhaustive "
         "correspondence, not by translation), harness, g++.  Not proved: the base class's propagate_from_vertices_rec and the geometric "
         "closure 'cells reachable through boundaries = top cells containing' (compared per input); persistence above the certified size "
         "limit uses an uncertified sparse reduction cross-checked against the certified one; pivot pairing = barcode is literature.",
    ref="design/C13.md")
CORRESPONDENCE = ("coq/C13_Model.v (extracted: ocaml/c13_oracle.ml, algorithm model AND coordinate-level specification) vs "
                  "harness/c13_drv.cpp (Bitmap_cubical_complex over both base classes) on identical construction and query lines")
TRUSTED = [
    "Coq 8.16.1 kernel (coqc, full .vo build)",
    "extraction (ExtrOcamlBasic only; Z stays inductive) + OCaml 4.13.1 + ocaml/prelude.ml, ocaml/c13_oracle.ml (parsing, printing, "
    "interval formatting, the uncertified sparse reduction used above the certified size limit)",
    "hand transcription coq/C13_Model.v of get_boundary_of_a_cell / get_coboundary_of_a_cell / get_dimension_of_a_cell / "
    "compute_counter_for_given_cell / compute_incidence_between_cells / set_up_containers / the iterators / impose_lower_star_filtration / "
    "impose_lower_star_filtration_from_vertices / propagate_from_vertices_rec / is_before_in_filtration of both classes; tied to the "
    "C++ by the exhaustive differential runs, not by a translator",
    "harness/c13_drv.cpp, g++ 12.2, the Python comparison and the Python evaluation of dd=0 / converse / order / Betti on the C++ output",
    "mathematics not formalised: pivot pairing of the boundary matrix = persistence barcode; cohomology/homology duality; the barcode as a "
    "multiset of values does not depend on how ties are ordered; Betti numbers of the k-torus are binomial(k, i)",
]
ASSUMPTIONS = [
    "the number of cells is < 2^32 (the C++ keeps multipliers and positions in 'unsigned'; the model uses unbounded integers)",
    "values are integers or +-infinity (exact in double); NaN is outside the property",
    "at least one direction; every side has at least one top cell for the theorems (vertex grids with a side of one vertex are only compared)",
    "compute_incidence_between_cells is only requested for distinct cells (identical cells index a vector with -1 in the C++)",
]
PRIMES = [2, 3, 11]


def binom(k, i):
    return math.comb(k, i) if 0 <= i <= k else 0


class Case:
    def __init__(self, cls, conv, sizes, mask, vals):
        self.cls, self.conv, self.sizes, self.mask, self.vals = cls, conv, list(sizes), list(mask), list(vals)

    def header(self):
        d = len(self.sizes)
        if self.conv == "top":
            dims = self.sizes
        else:
            dims = [s if (m and self.cls == "per") else s + 1 for s, m in zip(self.sizes, self.mask)]
        return "G %s %s %d %s %s %s" % (self.cls, self.conv, d, " ".join(map(str, dims)), " ".join("1" if m else "0" for m in self.mask),
                                        " ".join(self.vals))

    def ncells(self):
        n = 1
        for s, m in zip(self.sizes, self.mask):
            n *= 2 * s if (m and self.cls == "per") else 2 * s + 1
        return n

    def ninput(self):
        n = 1
        for s, m in zip(self.sizes, self.mask):
            n *= s if self.conv == "top" else (s if (m and self.cls == "per") else s + 1)
        return n


def gen_values(rng, n, style):
    if style == "const":
        return ["5"] * n
    if style == "distinct":
        v = list(range(n))
        rng.shuffle(v)
        return [str(x - n // 3) for x in v]
    if style == "ties":
        return [str(rng.randrange(3)) for _ in range(n)]
    if style == "inf":
        return [rng.choice(["inf", "-inf", "0", "1", "2", "inf", str(rng.randrange(-4, 5))]) for _ in range(n)]
    if style == "mixed":
        return [(rng.choice(["inf", "-inf"]) if rng.random() < 0.12 else str(rng.randrange(-6, 7))) for _ in range(n)]
    if style == "wide":
        # values that need more than the 24 significant bits of a float (exact in double): a narrowing inside the module merges
        # distinct values; the property is invariant under translation of the values
        return [(rng.choice(["inf", "-inf"]) if rng.random() < 0.08 else str((1 << 26) + rng.randrange(-6, 7))) for _ in range(n)]
    raise ValueError(style)


STYLES = ["mixed", "ties", "distinct", "inf", "const", "mixed", "wide"]


def ops_for(case, rng, full=True):
    d = len(case.sizes)
    ops = ["size", "dims", "vals", "bd", "cobd", "inc", "filt", "topc", "verts"]
    if any(x == 0 for x in case.sizes):
        # a vertex grid one vertex thick has no top cell; top_dimensional_cells_iterator computes sizes[i]-1 in unsigned there
        # (outside the property's quantifier: sides have at least one top cell)
        ops.remove("topc")
    ops += ["skel %d" % k for k in range(d + 1)]
    n = case.ncells()
    # incidence requests for arbitrary pairs: distinct cells, mostly non-faces (the C++ throws when they differ in >= 2 directions)
    for _ in range(4):
        a, b = rng.randrange(n), rng.randrange(n)
        if a != b:
            ops.append("incx %d %d" % (a, b))
    ops += ["pers %d" % p for p in PRIMES]
    if not any(x == 0 for x in case.sizes):
        ops.append("tcof" if case.conv == "top" else "vtx")
    ops.append("key")
    return ops


def shapes_exhaustive(maxd=3, maxs=4):
    for d in range(1, maxd + 1):
        for sizes in itertools.product(range(1, maxs + 1), repeat=d):
            yield sizes


def case_of_line(group, ops=None):
    w = group.split()
    d = int(w[3])
    cls, conv = w[1], w[2]
    mask = [x == "1" for x in w[4 + d:4 + 2 * d]]
    dims = [int(x) for x in w[4:4 + d]]
    sizes = dims if conv == "top" else [s if (m and cls == "per") else s - 1 for s, m in zip(dims, mask)]
    c = Case(cls, conv, sizes, mask, w[4 + 2 * d:])
    if ops is not None:
        c.ops = list(ops)
    return c


def corpus_cases():
    d = os.path.join(core.ROOT, "corpus", "C13")
    out = []
    if os.path.isdir(d):
        for f in sorted(os.listdir(d)):
            if f.endswith(".json"):
                j = json.load(open(os.path.join(d, f)))
                c = case_of_line(j["group"])
                c.style = "corpus"
                out.append(c)
    return out


def generate(ctx):
    rng = ctx.rng
    thorough = ctx.tier == "thorough"
    cases = corpus_cases()
    k = 0
    for sizes in shapes_exhaustive():
        d = len(sizes)
        for mask in itertools.product([False, True], repeat=d):
            for conv in ("top", "vert"):
                clss = ["per"] + (["base"] if not any(mask) else [])
                for cls in clss:
                    reps = 2 if thorough else 1
                    for r in range(reps):
                        c = Case(cls, conv, sizes, mask, [])
                        style = STYLES[(k + r) % len(STYLES)] if not thorough else rng.choice(STYLES)
                        k += 1
                        c.vals = gen_values(rng, c.ninput(), style)
                        c.style = style
                        cases.append(c)
    # vertex grids with a side of a single vertex (size-0 direction of the cell grid): boundary stream, compared only
    for dims in [(1,), (1, 3), (3, 1), (1, 1), (2, 1, 3), (1, 2, 1)]:
        for cls in ("base", "per"):
            c = Case(cls, "vert", [x - 1 for x in dims], [False] * len(dims), [])
            c.vals = gen_values(rng, c.ninput(), "mixed")
            c.style = "degenerate"
            cases.append(c)
    # 4- and 5-dimensional samples
    n4 = 60 if thorough else 14
    for i in range(n4):
        d = 4 if i % 7 else 5
        lim = 3 if d == 4 else 2
        sizes = [rng.randint(1, lim) for _ in range(d)]
        if i % 5 == 0:
            sizes = [min(s, 2) for s in sizes]
        mask = [rng.random() < 0.5 for _ in range(d)]
        if i % 4 == 0:
            sizes = [max(s, 3) if m else s for s, m in zip(sizes, mask)] if d == 4 else sizes
        cls = "per" if (any(mask) or i % 2) else "base"
        conv = "top" if i % 3 else "vert"
        c = Case(cls, conv, sizes, mask, [])
        if c.ncells() > 9000:
            c.sizes = [min(s, 2) for s in c.sizes]
        c.vals = gen_values(rng, c.ninput(), rng.choice(STYLES))
        c.style = "4d"
        cases.append(c)
    # tori and other periodic grids with periodic sides >= 3 (the documented domain), larger sides
    for sizes, mask in [((5,), (1,)), ((3, 3), (1, 1)), ((5, 4), (1, 1)), ((6, 3), (1, 0)), ((3, 3, 3), (1, 1, 1)), ((4, 3, 5), (1, 1, 0)),
                        ((3, 4, 3), (0, 1, 0)), ((3, 3, 3, 3), (1, 1, 1, 1))] + ([((7, 7), (1, 1)), ((5, 5, 5), (1, 1, 1)), ((4, 3, 3, 3), (1, 0, 1, 1))] if thorough else []):
        for conv in ("top", "vert"):
            c = Case("per", conv, sizes, [bool(m) for m in mask], [])
            c.vals = gen_values(rng, c.ninput(), rng.choice(["mixed", "ties", "const"]))
            c.style = "torus"
            cases.append(c)
    return cases


def parse_cells(line):
    """'a,b c -' -> [[a,b],[c],[]]"""
    out = []
    for tok in line.split(" "):
        out.append([] if tok == "-" else [int(x) for x in tok.split(",")])
    return out


def pval(s):
    return float("inf") if s == "inf" else float("-inf") if s == "-inf" else int(s)


def spec_checks(case, obs):
    """the specification evaluated in Python on the implementation's own output; returns list of (kind, message)"""
    bad = []
    cls = case.cls
    try:
        dims = [int(x) for x in obs["dims"].split()]
        vals = [pval(x) for x in obs["vals"].split()]
        bd = parse_cells(obs["bd"])
        cobd = parse_cells(obs["cobd"])
        n = len(dims)
    except Exception as e:   # noqa
        return [("format:%s" % cls, "unparsable implementation output: %r" % (e,))]
    if not (len(vals) == len(bd) == len(cobd) == n == case.ncells()):
        return [("size:%s" % cls, "number of cells: dims %d vals %d bd %d cobd %d expected %d" % (n, len(vals), len(bd), len(cobd), case.ncells()))]
    # grading
    for c in range(n):
        if len(bd[c]) != 2 * dims[c]:
            bad.append(("grading:%s" % cls, "cell %d of dimension %d has %d boundary elements" % (c, dims[c], len(bd[c]))))
            break
        if any(not (0 <= f < n) or dims[f] != dims[c] - 1 for f in bd[c]):
            bad.append(("grading:%s" % cls, "cell %d (dim %d): boundary %s has a cell of the wrong dimension or out of range" % (c, dims[c], bd[c])))
            break
    if bad:
        return bad
    # boundary of boundary with the signs alternating along the enumeration
    for c in range(n):
        acc = {}
        for k, f in enumerate(bd[c]):
            for j, g in enumerate(bd[f]):
                acc[g] = acc.get(g, 0) + (-1) ** (k + j)
        nz = {g: v for g, v in acc.items() if v}
        if nz:
            bad.append(("dd:%s" % cls, "boundary of boundary of cell %d is not zero with alternating signs: %s" % (c, sorted(nz.items())[:4])))
            break
    # converse, with multiplicities
    a = sorted((c, f) for c in range(n) for f in bd[c])
    b = sorted((c, f) for f in range(n) for c in cobd[f] if True)
    if a != b:
        diff = sorted(set(a) ^ set(b))[:3]
        bad.append(("converse:%s" % cls, "boundary and coboundary are not converse, e.g. (coface, face) %s" % (diff,)))
    # values are monotone
    for c in range(n):
        for f in bd[c]:
            if vals[f] > vals[c]:
                bad.append(("monotone:%s:%s" % (cls, case.conv), "face %d has value %s > %s of its coface %d" % (f, vals[f], vals[c], c)))
                break
        else:
            continue
        break
    # filtration order: permutation, strictly increasing keys (value, dimension, index), faces first
    if "filt" in obs:
        try:
            order = [int(x) for x in obs["filt"].split()]
        except ValueError:
            order = None
        if order is None or sorted(order) != list(range(n)):
            bad.append(("order:%s" % cls, "filtration_simplex_range is not a permutation of the cells"))
        else:
            keys = [(vals[c], dims[c], c) for c in order]
            for i in range(n - 1):
                if not keys[i] < keys[i + 1]:
                    bad.append(("order:%s" % cls, "filtration range not increasing at position %d: %s then %s" % (i, keys[i], keys[i + 1])))
                    break
            pos = {c: i for i, c in enumerate(order)}
            for c in range(n):
                if any(pos[f] > pos[c] for f in bd[c]):
                    bad.append(("order:%s" % cls, "cell %d comes before one of its faces in the filtration range" % c))
                    break
    # get_top_dimensional_coface_of_a_cell / get_vertex_of_a_cell: a top cell above (a vertex below) with the same value
    for op, want_dim in (("tcof", len(case.sizes)), ("vtx", 0)):
        if op not in obs:
            continue
        try:
            ans = [int(x) for x in obs[op].split()]
        except ValueError:
            ans = []
        if len(ans) != n:
            bad.append(("%s:%s" % (op, cls), "unparsable answer %r" % obs[op][:60]))
            continue
        cache = {}
        nb = bd if op == "tcof" else cobd     # from the answer r: down through boundaries / up through coboundaries
        for c in range(n):
            r = ans[c]
            okr = 0 <= r < n and dims[r] == want_dim and vals[r] == vals[c]
            if okr:
                if r not in cache:
                    seen, todo = {r}, [r]
                    while todo:
                        x = todo.pop()
                        for f in nb[x]:
                            if f not in seen:
                                seen.add(f)
                                todo.append(f)
                    cache[r] = seen
                okr = c in cache[r]
            if not okr:
                bad.append(("%s:%s" % (op, cls), "cell %d -> %d is not a %s of it with the same value" % (c, r, "top-dimensional coface" if op == "tcof" else "vertex")))
                break
    # Betti numbers = essential classes per dimension: binomial(k, i), k = number of periodic directions
    kper = sum(1 for m in case.mask if m and cls == "per")
    d = len(case.sizes)
    for p in PRIMES:
        key = "pers %d" % p
        if key not in obs:
            continue
        line = obs[key]
        ess = [0] * (d + 2)
        ok = True
        for tok in ([] if line == "-" else line.split()):
            parts = tok.split(":")
            if len(parts) != 3:
                ok = False
                break
            if parts[2] == "ess":
                ess[int(parts[0])] += 1
        if not ok:
            bad.append(("format:%s" % cls, "unparsable persistence line %r" % line[:80]))
            continue
        want = [binom(kper, i) for i in range(d + 2)]
        if ess != want:
            bad.append(("betti:%s" % cls, "Betti numbers over Z_%d are %s, expected %s (%d periodic directions)" % (p, ess[:d + 1], want[:d + 1], kper)))
    return bad


SPEC_OPS = {"dims": "dimension", "vals": "value", "cobd": "coboundary", "inc": "incidence", "bd": "boundary"}


def canon_for_spec(op, line):
    """canonical form of an implementation line for comparison with the specification's line"""
    if op == "cobd":
        return " ".join("-" if not c else ",".join(map(str, sorted(c))) for c in parse_cells(line))
    if op == "bd":
        out = []
        for c in parse_cells(line):
            out.append("-" if not c else ",".join("%d:%d" % (f, s) for f, s in sorted((f, (-1) ** k) for k, f in enumerate(c))))
        return " ".join(out)
    return line


def first_diff(a, b):
    ta, tb = a.split(" "), b.split(" ")
    for i, (x, y) in enumerate(zip(ta, tb)):
        if x != y:
            return "cell/position %d: implementation %s, expected %s" % (i, x, y)
    return "lengths %d vs %d" % (len(ta), len(tb))


def compare(ctx, cases, res, drv, orc):
    groups = []
    for c in cases:
        groups.append((c.header(), c.ops))
    # every fourth complex is reached through a history on one object (other values, one read of the order, the wanted values
    # written through get_cell_data, lower star imposed again, initialize_filtration): "GR" for the implementation, the
    # model is asked for the freshly built complex
    igroups = [(("GR" + h[1:]) if (i % 4 == 3 and len(c.vals) > 1) else h, ops) for i, (c, (h, ops)) in enumerate(zip(cases, groups))]
    for (h, _) in igroups:
        res.count("construction:" + ("rebuilt-through-history" if h.startswith("GR") else "fresh"))
    env = {"C13_CERT_LIMIT": str(CERT_LIMIT[ctx.tier])}
    obs = core.run_grouped_parallel(drv, igroups)
    exp = core.run_grouped_parallel(orc, groups, env=env)
    for c, (h, ops), (ho, ao), (he, ae) in zip(cases, groups, obs, exp):
        cls = c.cls
        res.evaluations += 1
        res.count("class:" + cls)
        res.count("convention:" + c.conv)
        res.count("directions:%d" % len(c.sizes))
        res.count("periodic-directions:%d" % sum(1 for m in c.mask if m and cls == "per"))
        res.count("values:" + getattr(c, "style", "replay"))
        res.count("cells", c.ncells())
        if any(s == 1 for s in c.sizes):
            res.count("has-length-1-side")
        if any(m and s < 3 for s, m in zip(c.sizes, c.mask)) and cls == "per":
            res.count("has-short-periodic-side(<3)")
        casej = {"group": h, "ops": ops}
        if ho != he:
            res.violation("build:%s:%s" % (cls, c.conv), "%s -> implementation %s, model %s" % (h[:120], ho, he), casej, expected=he, observed=ho)
            continue
        obsmap = {}
        for line, o, e in zip(ops, ao, ae):
            op = line.split()[0]
            res.evaluations += 1
            res.count("op:" + op)
            obsmap[line if op in ("pers", "skel", "incx") else op] = o
            if op in ("tcof", "vtx") and not (o.startswith("CRASH") or o.startswith("DIED") or o.startswith("EXC")):
                continue      # "an arbitrary one": specification only, in spec_checks
            alg, _, spec = e.partition(" ## ")
            one = {"group": h, "ops": [line]}
            if o.startswith("CRASH") or o.startswith("DIED") or o.startswith("EXC") or o == "INCONSISTENT":
                res.violation("crash:%s:%s" % (cls, op), "%s | %s -> %s" % (h[:120], line, o[:100]), one, expected=alg[:200], observed=o[:200])
                continue
            if alg.startswith("MODELDIFF") or alg.startswith("CERTIFICATE") or alg.startswith("ORACLE-EXC") or alg.startswith("MODEL-FUEL"):
                res.violation("model:%s" % op, "oracle trouble on %s | %s: %s" % (h[:120], line, alg[:200]), one, expected=alg[:300], observed=o[:300])
                continue
            spec_bad = False
            if op in SPEC_OPS and spec and spec != "-":
                oc = canon_for_spec(op, o)
                if oc != spec:
                    spec_bad = True
                    res.violation("%s:%s%s" % (SPEC_OPS[op], cls, (":" + c.conv) if op == "vals" else ""),
                                  "%s | %s: the implementation differs from the coordinate-level specification at %s"
                                  % (h[:160], line, first_diff(oc, spec)), one, expected=spec[:400], observed=oc[:400])
            if op == "incx" and spec and spec != "notaface" and o != spec:
                spec_bad = True
                res.violation("incidence:%s" % cls, "%s | %s -> %s, geometric incidence %s" % (h[:160], line, o, spec), one, expected=spec, observed=o)
            if op == "pers":
                res.count("persistence:" + (spec or "?"))
                if alg != o:
                    spec_bad = True
                    res.violation("persistence:%s" % cls, "%s | %s: Persistent_cohomology intervals differ from the %s reduction of the boundary matrix at %s"
                                  % (h[:160], line, spec, first_diff(o, alg)), one, expected=alg[:400], observed=o[:400])
            elif alg != o and not spec_bad:
                # differs from the transcription although no specification clause failed on this line
                res.violation("corr:%s:%s" % (cls, op), "%s | %s: implementation and algorithm model differ at %s (specification clauses of this line hold)"
                              % (h[:160], line, first_diff(o, alg)), one, expected=alg[:400], observed=o[:400],
                              no_input=(op in SPEC_OPS))
        res.traces_validated += 1 + len(ops)
        if all(k in obsmap for k in ("dims", "vals", "bd", "cobd")):
            for kind, msg in spec_checks(c, obsmap):
                res.violation(kind, "%s: %s" % (h[:160], msg), casej, expected="specification", observed=msg)


CERT_LIMIT = {"quick": 90, "thorough": 125}


def check(ctx, replay=None):
    res = core.Result()
    if not getattr(ctx, "skip_proof", False):
        ctx.prove(["Extract_C13.vo"])
    drv = ctx.build_harness("c13_drv.cpp", flags=[])
    orc = ctx.build_oracle("c13")
    if replay:
        c = case_of_line(replay["case"]["group"], replay["case"]["ops"])
        cases = [c]
    else:
        cases = generate(ctx)
        for c in cases:
            c.ops = ops_for(c, ctx.rng)
    compare(ctx, cases, res, drv, orc)
    res.distinct = set(c.header() for c in cases)
    res.rule = ("one case = (class, input convention, shape, periodic mask, value vector) with all queries: every cell's dimension, value, "
                "boundary, coboundary, incidences, the filtration range, the iterators, skeleton ranges, Persistent_cohomology for p in {2,3,11}; "
                "exhaustive over all shapes with <= 3 directions and sides 1..4, all periodic masks, both conventions, both classes (the plain "
                "class only without periodic directions); sampled 4- and 5-dimensional shapes; tori; distinct = distinct construction lines; "
                "every case is non-trivial (it builds a complex and compares its whole observable state)")
    res.exhaustive = False
    res.samples = [{"group": cases[i].header()[:300], "ops": cases[i].ops[:6]} for i in sorted(ctx.rng.sample(range(len(cases)), min(6, len(cases))))]
    res.notes.append("exhaustive sub-domain: all %d shapes with <= 3 directions and sides 1..4 x all periodic masks x {top cells, vertices} x "
                     "{periodic class, plain class where no direction is periodic}; certified reduction used up to %d cells, above it the "
                     "uncertified sparse reduction (cross-checked against the certified one below the limit)" % (4 + 16 + 64, CERT_LIMIT[ctx.tier]))
    return core.finish(ctx, None, res, TRUSTED, ASSUMPTIONS, LEVEL,
                       "cd /verif/coq && make -f Makefile.coq Properties_C13.vo  (coqc 8.16.1; Print Assumptions after every theorem)",
                       correspondence_name=CORRESPONDENCE)
