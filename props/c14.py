"""C14 - the specialised 1D and 2D persistence routines agree with generic persistence."""
import itertools, json, os, re
from concurrent.futures import ThreadPoolExecutor
from vlib import core

LEVEL = "proof"
MANIFEST = dict(
    cat="proof",
    tech="Coq proof about a label-for-label model of the 1D state machine (bounded equality with the certified barcode, bound in the "
         "statement, lifted by a proved order-invariance lemma; unbounded safety/strictness/minimum theorems) + exhaustive differential "
         "validation of the 2D routine against the proved barcode oracle",
    text="Line routine (Persistence_on_a_line.h): the goto state machine is transcribed label for label into Gallina and run against the "
         "C++ on every generated sequence (three container/value types, default and custom comparators, emission order compared). "
         "Proved for all inputs: the machine never indexes out of bounds nor trips its GUDHI_CHECK and ends within its fuel, every emitted "
         "pair has birth < death, the infinite class is born at the global minimum, the machine commutes with every relabelling that is "
         "strictly monotone on the input (it only compares). Proved for all sequences of length <= 6 (bound in the statement): its sorted "
         "output equals the 0-dimensional barcode of the lower-star path complex computed by the certified reduction of ReduceExec.v. "
         "Rectangle routine (Persistence_on_rectangle.h): NOT proved - exhaustive differential validation against the same proved oracle "
         "applied to the full cubical complex built from the top cells: every weak order of the cells of 2x2, 2x3, 3x2 grids in both "
         "output modes on every run (thorough: also 2x4, 4x2, 3x3), random larger grids including sides of 2, index mode under the "
         "routine's tie rule (equal values ordered by index).",
    note="Trusted: Coq kernel, extraction + OCaml driver, harness, the hand transcription of the state machine (tied by the differential "
         "run), the un-formalised fact that pivot pairing of the boundary matrix is the interval decomposition. The 60-leaf decision tree "
         "fill_and_pair has no model: for the rectangle the claim is exhaustive agreement on the listed sizes plus samples. On sweeps the "
         "oracle's reduction step is a fast Z_2 reduction cross-checked against the certified one. line_eq_oracle for all lengths is kept "
         "as C14_line_eq_oracle_full (not proved).",
    ref="design/C14.md")
CORRESPONDENCE = ("coq/C14_Model.v (state machine [line] + barcode specification, extracted: ocaml/c14_oracle.ml) vs harness/c14_drv.cpp "
                  "on identical input lines")
TRUSTED = [
    "Coq 8.16.1 kernel (coqc, full .vo build); vm_compute in the bounded theorem (bound in its statement) and in Examples",
    "extraction (ExtrOcamlBasic only; Z/nat stay inductive) + OCaml 4.13.1 + ocaml/prelude.ml + ocaml/c14_oracle.ml (parsing, printing, "
    "enumeration of weak orders, a fast Z_2 column reduction used on sweeps and cross-checked against certified_lows)",
    "hand-written label-for-label model of compute_persistence_of_function_on_line in coq/C14_Model.v; tied to the C++ by the differential "
    "run (emission order included), not by translation",
    "harness/c14_drv.cpp (calls the two public functions, sorts the rectangle pairs), g++ 12.2",
    "mathematics not formalised: the pivot pairing of a reduced boundary matrix is the interval decomposition; the value barcode of a "
    "lower-star filtration does not depend on how ties are ordered (cross-checked per input under two tie rules)",
    "modelled rather than verified: fill_and_pair / primal / dual of Persistence_on_rectangle.h (compared with the oracle only)",
]
ASSUMPTIONS = [
    "inputs are integers (exact in double/float/long); no NaN; comparators are strict weak orders",
    "the theorems about the line routine are about the Gallina transcription with Z.ltb; other comparators are covered by the "
    "order-invariance theorem (monotone relabelling) and by the differential run",
]

KIND_ZERO = "rect:value-mode-emits-zero-length-pairs"
KIND_SIDE2 = "rect:wrong-barcode-on-grid-with-a-side-of-exactly-2-cells"
KIND_RECT = "rect:output-differs-from-cubical-barcode"
KIND_RECT_IDX_TIES = "rect:index-mode-pairs-differ-only-in-how-equal-values-are-matched"
KIND_LINE_MODEL = "line:output-differs-from-state-machine-model"
KIND_LINE_SPEC = "line:output-is-not-the-barcode-of-the-path-complex"
KIND_MODEL_SPEC = "line:model-disagrees-with-specification"
KIND_ORACLE = "oracle:certificate-or-cross-check-failed"
OK_TIES = "ok:index-mode-equal-values-matched-in-another-admissible-order"   # not a violation, counted


class CountSet:
    """set-like: explicit members plus a counter for cases that are distinct by construction (enumerations)"""

    def __init__(self):
        self.s = set()
        self.n = 0

    def add(self, x):
        self.s.add(x)

    def __len__(self):
        return len(self.s) + self.n

    def __iter__(self):
        return iter(self.s)


# ------------------------------------------------------------------------------------------------ running
def run_both(hbin, obin, text, certify_every=1):
    rc1, out1, err1 = core.sh_out([hbin], input=text, timeout=3000)
    rc2, out2, err2 = core.sh_out([obin, str(certify_every)], input=text, timeout=3000)
    h = out1.split("\n")
    o = out2.split("\n")
    if h and h[-1] == "":
        h.pop()
    if o and o[-1] == "":
        o.pop()
    if rc2 != 0:
        raise core.CheckError("oracle failed rc=%d: %s" % (rc2, err2[-500:]))
    return h, o


def run_lines(hbin, obin, lines, nchunks=None):
    """one answer per line on both sides, in parallel chunks; a crashed harness yields CRASH/DIED answers"""
    if not lines:
        return [], []
    nchunks = max(1, min(nchunks or core.NPROC, len(lines)))
    chunks = [lines[i::nchunks] for i in range(nchunks)]

    def work(ch):
        hres = core.run_grouped(hbin, [("", ch)])[0][1]
        rc, out, err = core.sh_out([obin, "3"], input="\n" + "\n".join(ch) + "\n", timeout=3000)
        if rc != 0:
            raise core.CheckError("oracle failed rc=%d: %s" % (rc, err[-500:]))
        o = out.split("\n")[1:]
        return hres, o[:len(ch)]
    rs = core.parallel_map(work, chunks)
    h = [None] * len(lines)
    o = [None] * len(lines)
    for k, (hr, orr) in enumerate(rs):
        for j, (a, b) in enumerate(zip(hr, orr)):
            h[k + j * nchunks] = a
            o[k + j * nchunks] = b
    return h, o


# ------------------------------------------------------------------------------------------------ comparing
RECT_RE = re.compile(r"^R 0:(.*) \| 1:(.*) \| min (\S+)(.*)$")


def parse_rect(ans):
    m = RECT_RE.match(ans)
    if not m:
        return None
    def ps(t):
        return [tuple(int(x) for x in p.split(",")) for p in t.split()]
    return ps(m.group(1)), ps(m.group(2)), m.group(3), m.group(4).strip()


def classify_rect(inp, hans, oans):
    """inp: the input line 'R type mode rows cols vals..'; returns None or (kind, what)"""
    if hans == oans:
        return None
    w = inp.split()
    if len(w) < 5:
        return (KIND_ORACLE, "malformed case %s" % inp)
    mode, rows, cols = w[2], int(w[3]), int(w[4])
    vals = [int(x) for x in w[5:]]
    side2 = min(rows, cols) == 2
    po = parse_rect(oans)
    if po is None or po[3]:
        if oans.startswith("EXC") and not hans.startswith("EXC"):
            return (KIND_RECT, "sizes below 2 are not rejected (GUDHI_CHECK build): %s gives %s" % (inp, hans))
        return (KIND_ORACLE, "oracle answer unusable: %s" % oans)
    ph = parse_rect(hans)
    if ph is None:
        return (KIND_SIDE2 if side2 else KIND_RECT, "%s: implementation answers '%s', cubical barcode is '%s'" % (inp, hans, oans))
    if mode == "v":
        nz = lambda l: [p for p in l if p[0] != p[1]]
        if nz(ph[0]) == po[0] and nz(ph[1]) == po[1] and ph[2] == po[2]:
            return (KIND_ZERO, "%s: pairs of zero length are passed to the output functors (%s); expected only %s" % (inp, hans, oans))
    else:
        # index mode: same values once the indices are looked up?
        def tv(l):
            try:
                return sorted((vals[b], vals[d]) for (b, d) in l if vals[b] != vals[d])
            except IndexError:
                return None
        try:
            same_min = vals[int(ph[2])] == vals[int(po[2])]
        except (ValueError, IndexError):
            same_min = False
        if same_min and tv(ph[0]) == tv(po[0]) and tv(ph[1]) == tv(po[1]) and tv(ph[0]) is not None \
                and len(ph[0]) == len(po[0]) and len(ph[1]) == len(po[1]):
            return (KIND_RECT_IDX_TIES, "%s: index pairs %s differ from the tie rule's %s but carry the same values" % (inp, hans, oans)) \
                if len(set(vals)) == len(vals) else (OK_TIES, "")
    return (KIND_SIDE2 if side2 else KIND_RECT, "%s: implementation answers '%s', cubical barcode is '%s'" % (inp, hans, oans))


def key_of(cmp):
    if cmp.startswith("k"):
        k = int(cmp[1:])
        return lambda x: x // k
    return lambda x: x


def parse_pairs(t):
    out = []
    for p in t.split():
        b, d = p.split(",")
        out.append((int(b), int(d)))
    return out


def classify_line(inp, hans, oans):
    """oans = 'L alg # S spec # C canon'"""
    w = inp.split()
    cmp = w[2]
    parts = [x.strip() for x in oans.split(" # ")]
    if len(parts) != 3:
        return (KIND_ORACLE, "oracle answer unusable: %s" % oans)
    alg, spec, canon = parts
    kf = key_of(cmp)

    def keyed(ans, tag):
        # 'X pairs | ess m' / 'L pairs | inf m' / '| none'
        body = ans[len(tag):].strip() if ans.startswith(tag) else None
        if body is None or "|" not in body:
            return None
        a, b = body.split("|", 1)
        try:
            prs = sorted((kf(x), kf(y)) for (x, y) in parse_pairs(a))
        except ValueError:
            return None
        b = b.split()
        ess = [kf(int(x)) for x in b[1:]] if b and b[0] in ("ess", "inf") else []
        return prs, ess
    out = None
    if spec != "S SKIPPED":
        ks, kc = keyed(spec, "S"), keyed(canon, "C")
        if spec.startswith("S CERT"):
            return (KIND_ORACLE, "certificate failed on %s" % inp)
        if ks is None or kc is None or ks != kc:
            out = (KIND_MODEL_SPEC, "%s: the state-machine model gives %s, the specification %s" % (inp, canon, spec))
    if hans != alg:
        kh = keyed(hans, "L")
        if spec != "S SKIPPED" and kh is not None and kh == keyed(spec, "S"):
            return (KIND_LINE_MODEL, "%s: implementation answers '%s', the model '%s' (still the right barcode: the code no longer "
                    "follows the transcribed state machine)" % (inp, hans, alg))
        return (KIND_LINE_SPEC, "%s: implementation answers '%s', model '%s', specification '%s'" % (inp, hans, alg, spec))
    return out


# ------------------------------------------------------------------------------------------------ generators
def weak_orders(n):
    """all rank vectors of length n onto an initial segment of the naturals"""
    if n == 0:
        yield ()
        return
    for r in itertools.product(range(n), repeat=n):
        m = max(r)
        if len(set(r)) == m + 1:
            yield r


LINE_CORPUS = [
    [], [5], [5, 5], [1, 2], [2, 1], [1, 2, 3, 4], [4, 3, 2, 1], [3, 3, 3, 3],
    [1, 9, 2, 8, 3, 7], [1, 9, 2, 8, 3, 7, 5], [1, 9, 2, 8, 3, 7, 5, 6], [1, 9, 2, 8, 3, 7, 0], [1, 9, 2, 8, 3, 7, 10],
    [1, 9, 2, 8, 3, 7, 5, 6, 4], [1, 9, 2, 8, 3, 7, 5, 6, 8], [1, 9, 2, 8, 3, 7, 5, 6, 9, 0], [1, 9, 2, 8, 3, 7, 2], [1, 9, 2, 8, 3, 7, 3],
    [1, 9, 2, 8, 3, 7, 7], [1, 9, 2, 8, 3, 7, 5, 7], [1, 9, 2, 8, 3, 7, 5, 5], [1, 9, 2, 8, 3, 7, 5, 6, 5], [1, 9, 2, 8, 3, 7, 5, 6, 6],
    [1, 9, 2, 8, 1], [1, 9, 2, 9], [1, 9, 1], [1, 9, 9], [5, 1, 9, 2, 8], [3, 1, 4, 1, 5, 9, 2, 6, 5, 3, 5, 8, 9, 7, 9],
    [0, 3, 1, 2, 1, 2, 1, 3, 0], [2, 0, 2, 0, 2, 0], [0, 2, 0, 2, 0, 2], [-3, 7, -3, 7, -4], [10, 0, 10, 1, 9, 2, 8, 3, 11],
]
CMPS = ["lt", "lt2", "gt", "k2", "k3"]
WIDE = 1 << 26
TYPES = ["d", "l", "f"]


def line_cases(rng, tier):
    out = []

    def add(vals, ty=None, cmp=None, wide=False):
        ty = ty or rng.choice(TYPES)
        # wide: the same shape 2^26 higher - the values then need more than the 24 significant bits of a float (a routine that
        # narrows its values merges distinct ones); not for the float-valued container, whose values must stay exact
        if wide and ty != "f" and rng.random() < 0.15:
            vals = [v + WIDE for v in vals]
        out.append("L %s %s %d %s" % (ty, cmp or rng.choice(CMPS), len(vals), " ".join(map(str, vals))))
    for v in LINE_CORPUS:
        for cmp in CMPS:
            add(v, "d", cmp)
        add(v, "l", "lt")
        add(v, "f", "gt")
    # every weak order of short sequences (default comparator, double), and through the other types/comparators by rotation
    nmax = 6 if tier == "quick" else 7
    k = 0
    for n in range(0, nmax + 1):
        for r in weak_orders(n):
            k += 1
            if n <= 5 or tier == "thorough" or k % 2 == 0:
                add(list(r), "d", "lt")
            if k % 3 == 0:
                add([3 * x - 4 for x in r], TYPES[k % 3], CMPS[(k // 3) % 5])
    # random: nested zig-zags (the "1 9 2 8 3 7" invariant), plateaus, few distinct values
    nrand = 1000 if tier == "quick" else 10000
    for i in range(nrand):
        style = rng.randrange(6)
        n = rng.choice([rng.randrange(2, 12), rng.randrange(2, 12), rng.randrange(8, 20), rng.randrange(12, 30)])
        if style == 0:
            vals = [rng.randrange(-3, 4) for _ in range(n)]
        elif style == 1:
            vals = [rng.randrange(0, 3) for _ in range(n)]
        elif style == 2:          # nested then perturbations
            lo, hi, vals = 0, 4 * n, []
            for j in range(n):
                if rng.random() < 0.75:
                    if j % 2 == 0:
                        lo += rng.randrange(1, 3); vals.append(lo)
                    else:
                        hi -= rng.randrange(1, 3); vals.append(hi)
                else:
                    vals.append(rng.choice(vals) if vals and rng.random() < 0.5 else rng.randrange(-2, 4 * n + 2))
        elif style == 3:          # plateaus
            vals = []
            while len(vals) < n:
                vals += [rng.randrange(0, 8)] * rng.randrange(1, 4)
            vals = vals[:n]
        elif style == 4:
            vals = rng.sample(range(-50, 50), min(n, 100))
        else:                      # random walk
            x, vals = 0, []
            for j in range(n):
                x += rng.choice([-2, -1, -1, 0, 1, 1, 2]); vals.append(x)
        add(vals, wide=True)
    # long sequences: algorithm model only (the dense certified reduction is too slow there)
    for i in range(30 if tier == "quick" else 200):
        n = rng.randrange(100, 1500)
        x, vals = 0, []
        for j in range(n):
            x += rng.choice([-3, -2, -1, 0, 0, 1, 2, 3]); vals.append(x if rng.random() < 0.9 else rng.randrange(-20, 20))
        add(vals)
    return out


RECT_CORPUS = [
    (2, 2, [1, 4, 3, 2]), (2, 3, [1, 5, 0, 6, 7, 8]), (3, 2, [1, 6, 5, 7, 0, 8]), (2, 2, [0, 0, 0, 0]), (3, 3, [0] * 9),
    (3, 3, [0, 0, 0, 0, 1, 0, 0, 0, 0]), (3, 3, [1, 1, 1, 1, 0, 1, 1, 1, 1]), (3, 3, [1, 5, 0, 6, 7, 8, 2, 2, 2]),
    (4, 4, [0, 0, 0, 0, 0, 1, 1, 0, 0, 1, 1, 0, 0, 0, 0, 0]), (4, 4, [5, 5, 5, 5, 5, 0, 9, 5, 5, 9, 1, 5, 5, 5, 5, 5]),
    (5, 5, [0, 0, 0, 0, 0, 0, 3, 3, 3, 0, 0, 3, 9, 3, 0, 0, 3, 3, 3, 0, 0, 0, 0, 0, 0]),
    (2, 5, [3, 1, 4, 1, 5, 9, 2, 6, 5, 3]), (5, 2, [3, 1, 4, 1, 5, 9, 2, 6, 5, 3]), (3, 4, [2, 7, 1, 8, 2, 8, 1, 8, 2, 8, 4, 5]),
]


def rect_op(rows, cols):
    """R = certified dense reduction in the oracle (cells <= 130), RF = its fast reduction"""
    return "R" if (2 * rows + 1) * (2 * cols + 1) <= 130 else "RF"


def rect_line(op, ty, mode, rows, cols, vals):
    return "%s %s %s %d %d %s" % (op, ty, mode, rows, cols, " ".join(map(str, vals)))


def rect_random_cases(rng, tier):
    out = []

    def vals_for(n):
        st = rng.randrange(5)
        if st == 0:
            return [rng.randrange(0, 3) for _ in range(n)]
        if st == 1:
            return [rng.randrange(0, max(2, n // 2)) for _ in range(n)]
        if st == 2:
            p = list(range(n)); rng.shuffle(p); return p
        if st == 3:
            return [rng.randrange(-5, 6) for _ in range(n)]
        return [rng.choice([0, 0, 1, 7]) for _ in range(n)]
    for (r, c, v) in RECT_CORPUS:
        for ty in ("d", "l"):
            for mode in ("v", "i"):
                out.append(rect_line("R", ty, mode, r, c, v))
    q = tier == "quick"
    plan = [((3, 5), 10 if q else 120), ((5, 3), 10 if q else 120), ((5, 5), 6 if q else 60), ((4, 4), 12 if q else 120),
            ((2, None), 30 if q else 300), ((None, 2), 30 if q else 300), ((3, None), 10 if q else 100), ((None, 3), 10 if q else 100)]
    for (shape, cnt) in plan:
        for i in range(cnt):
            r, c = shape
            r = r or rng.randrange(2, 8 if c == 2 else 7)
            c = c or rng.randrange(2, 8 if r == 2 else 7)
            v = vals_for(r * c)
            if rng.random() < 0.15:      # the same grid 2^26 higher (see line_cases)
                v = [x + WIDE for x in v]
            out.append(rect_line("R", rng.choice("dl"), rng.choice("vi"), r, c, v))
    # cells at +infinity (key 1000003 in the double-valued cases): masked cells, in the interior and on the border
    for i in range(60 if q else 600):
        r, c = rng.randrange(2, 6), rng.randrange(2, 6)
        v = vals_for(r * c)
        for _ in range(rng.choice([1, 1, 2, 3])):
            v[rng.randrange(r * c)] = 1000003
        out.append(rect_line("R", "d", rng.choice("vi"), r, c, v))
    # larger grids: fast reduction in the oracle (cross-checked on a sample)
    for i in range(40 if q else 400):
        r, c = rng.choice([(6, 7), (8, 8), (7, 3), (3, 9), (2, 14), (13, 2), (10, 9), (12, 5), (9, 9), (4, 12), (3, 7), (2, 11)])
        out.append(rect_line("RF", rng.choice("dl"), rng.choice("vi"), r, c, vals_for(r * c)))
    # sizes the interface refuses (only observable when GUDHI_CHECK is active: the harness is built with GUDHI_DEBUG)
    for (r, c) in [(1, 1), (1, 4), (4, 1), (0, 3), (1, 2)]:
        out.append(rect_line("R", "d", "v", r, c, [0] * (r * c)))
    return out


def enum_jobs(tier):
    """(rows, cols, mode, prefix-length, certify_every)"""
    jobs = []
    q = tier == "quick"
    for (r, c) in [(2, 2), (2, 3), (3, 2)]:
        jobs.append((r, c, "b", 0 if r * c == 4 else 1, 1 if (r * c == 4 or not q) else 3))
    if not q:
        for (r, c) in [(2, 4), (4, 2)]:
            jobs.append((r, c, "b", 2, 500))
        jobs.append((3, 3, "b", 2, 5000))
    return jobs


# ------------------------------------------------------------------------------------------------ shrinking
def shrink_line(hbin, obin, inp):
    w = inp.split()
    vals = w[4:]
    while len(vals) > 1:
        cands = [vals[:i] + vals[i + 1:] for i in range(len(vals))]
        lines = ["L %s %s %d %s" % (w[1], w[2], len(c), " ".join(c)) for c in cands]
        h, o = run_lines(hbin, obin, lines, nchunks=4)
        hit = None
        for l, a, b in zip(lines, h, o):
            if classify_line(l, a, b):
                hit = l
                break
        if not hit:
            break
        vals = hit.split()[4:]
    return "L %s %s %d %s" % (w[1], w[2], len(vals), " ".join(vals))


def shrink_rect(hbin, obin, inp, kind):
    w = inp.split()
    ty, mode, rows, cols = w[1], w[2], int(w[3]), int(w[4])
    vals = [int(x) for x in w[5:]]
    for _ in range(40):
        cands = []
        if rows > 2:
            for r in range(rows):
                cands.append((rows - 1, cols, [vals[y * cols + x] for y in range(rows) if y != r for x in range(cols)]))
        if cols > 2:
            for c in range(cols):
                cands.append((rows, cols - 1, [vals[y * cols + x] for y in range(rows) for x in range(cols) if x != c]))
        sv = sorted(set(vals))
        if sv != list(range(len(sv))):
            cands.append((rows, cols, [sv.index(v) for v in vals]))
        if not cands:
            break
        lines = [rect_line(rect_op(r, c), ty, mode, r, c, v) for (r, c, v) in cands]
        h, o = run_lines(hbin, obin, lines, nchunks=4)
        hit = None
        for (r, c, v), l, a, b in zip(cands, lines, h, o):
            k = classify_rect(l, a, b)
            if k and k[0] == kind:
                hit = (r, c, v)
                break
        if not hit:
            break
        rows, cols, vals = hit
    return rect_line(rect_op(rows, cols), ty, mode, rows, cols, vals)


# ------------------------------------------------------------------------------------------------ the check
def check(ctx, replay=None):
    res = core.Result()
    res.distinct = CountSet()
    if not getattr(ctx, "skip_proof", False):
        ctx.prove(["Extract_C14.vo"])
    hdbg = ctx.build_harness("c14_drv.cpp", tag="dbg", flags=["-DGUDHI_DEBUG"])
    hrel = ctx.build_harness("c14_drv.cpp", tag="rel", flags=["-DGUDHI_USE_TBB"])   # release variant also takes the tbb::parallel_sort path
    orc = ctx.build_oracle("c14")

    def report(inp, kind_what, build, shrink=True):
        kind, what = kind_what
        case_line = inp
        if shrink and kind not in (KIND_ORACLE, KIND_MODEL_SPEC):
            hb = hdbg if build == "dbg" else hrel
            try:
                case_line = shrink_line(hb, orc, inp) if inp.startswith("L") else shrink_rect(hb, orc, inp, kind)
            except core.CheckError:
                case_line = inp
        hb = hdbg if build == "dbg" else hrel
        h, o = run_lines(hb, orc, [case_line], nchunks=1)
        kw = (classify_line if case_line.startswith("L") else classify_rect)(case_line, h[0], o[0])
        if not kw or kw[0] == OK_TIES:
            case_line, kw = inp, kind_what
            h, o = run_lines(hb, orc, [case_line], nchunks=1)
        res.violation(kw[0], kw[1], {"line": case_line, "build": build, "original": inp}, expected=o[0], observed=h[0],
                      no_input=(kw[0] == KIND_LINE_MODEL))

    if replay:
        c = replay["case"]
        line = c["line"]
        hb = hdbg if c.get("build", "dbg") == "dbg" else hrel
        h, o = run_lines(hb, orc, [line], nchunks=1)
        res.evaluations = 1
        res.distinct.add(line)
        ctx.log("replay: %s" % line)
        ctx.log("  implementation: %s" % h[0])
        ctx.log("  oracle        : %s" % o[0])
        kw = (classify_line if line.startswith("L") else classify_rect)(line, h[0], o[0])
        if kw and kw[0] != OK_TIES:
            res.violation(kw[0], kw[1], dict(c), expected=o[0], observed=h[0])
        res.rule = "replay of one stored case"
        return core.finish(ctx, None, res, TRUSTED, ASSUMPTIONS, LEVEL, CHECKER, correspondence_name=CORRESPONDENCE)

    # ---------------- line routine
    ll = line_cases(ctx.rng, ctx.tier)
    seen_kinds = {}
    for build, hb in (("dbg", hdbg), ("rel", hrel)):
        sub = ll if build == "dbg" else ll[::3]
        h, o = run_lines(hb, orc, sub)
        for inp, a, b in zip(sub, h, o):
            res.evaluations += 1
            w = inp.split()
            n = int(w[3])
            res.count("line:type=%s" % w[1]); res.count("line:cmp=%s" % w[2])
            res.count("line:len<=7" if n <= 7 else ("line:len<=48" if n <= 48 else "line:len>48(model only)"))
            if n >= 2:
                res.distinct.add(inp)
            npairs = len(a.split("|")[0].split()) - 1 if a.startswith("L") else -1
            res.count("line:pairs=%s" % (npairs if npairs < 4 else "4+"))
            if "S SKIPPED" not in b:
                res.traces_validated += 1
            kw = classify_line(inp, a, b)
            if kw:
                seen_kinds.setdefault(kw[0], []).append((inp, kw, build))
    ctx.log("line: %d cases run (%d against the specification)" % (res.evaluations, res.traces_validated))
    for kind, lst in seen_kinds.items():
        lst.sort(key=lambda t: len(t[0]))
        for (inp, kw, build) in lst[:1]:
            report(inp, kw, build)
        for (inp, kw, build) in lst[1:6]:
            res.violation(kw[0], kw[1], {"line": inp, "build": build}, no_input=(kw[0] == KIND_LINE_MODEL))

    # ---------------- rectangle routine: exhaustive sweeps
    jobs = []
    for (r, c, mode, k, ce) in enum_jobs(ctx.tier):
        n = r * c
        for pre in itertools.product(range(n), repeat=k):
            # a prefix can be extended to a weak order unless it already skips too many ranks; let both sides filter
            jobs.append((r, c, mode, "ENUM d %s %d %d %d %s" % (mode, r, c, k, " ".join(map(str, pre))), ce))
    if ctx.tier == "quick":
        # a seed-dependent sample of the thorough sweeps: all weak orders of 3x3 / 2x4 / 4x2 that extend a random prefix
        # (the centre square of a 3x3 grid reaches every leaf of the interior decision tree)
        for (r, c, k, cnt) in [(3, 3, 3, 3), (2, 4, 3, 2), (4, 2, 3, 2)]:
            for _ in range(cnt):
                pre = [ctx.rng.randrange(0, 4) for _ in range(k)]
                jobs.append((r, c, "b sampled", "ENUM d b %d %d %d %s" % (r, c, k, " ".join(map(str, pre))), 2000))
    nz_examples = {}
    mism = []     # (R line, hans, oans)

    def do_enum(job):
        r, c, mode, text, ce = job
        h, o = run_both(hdbg, orc, text + "\n", ce)
        cnt = 0
        nontriv = 0
        zero = 0
        ties = 0
        bad = []
        if len(h) != len(o) or not h or h[-1] != o[-1] or not h[-1].startswith("END"):
            bad.append(("enumeration out of step", text, (h[-1:] or [""])[0], (o[-1:] or [""])[0]))
            return (r, c, mode, 0, 0, 0, 0, bad)
        for a, b in zip(h[:-1], o[:-1]):
            cnt += 1
            if " R 0: | 1: | " not in b:
                nontriv += 1
            if a != b:
                va, ra = a.split(" ", 2)[1:]
                vb, rb = b.split(" ", 2)[1:]
                if va != vb:
                    bad.append(("enumeration out of step", text, a, b))
                    break
                ras, rbs = ra.split(" ## "), rb.split(" ## ")
                if len(ras) != 2 or len(rbs) != 2:
                    ras, rbs = (ras + ras)[:2], (rbs + rbs)[:2]
                for m, xa, xb in zip(("v", "i"), ras, rbs):
                    inp = rect_line("R", "d", m, r, c, va.split(","))
                    kw = classify_rect(inp, xa, xb)
                    if kw and kw[0] == OK_TIES:
                        ties += 1
                    elif kw and kw[0] == KIND_ZERO:
                        zero += 1
                        if zero == 1:
                            bad.append((KIND_ZERO, inp, xa, xb))
                    elif kw and len(bad) < 40:
                        bad.append((kw[0], inp, xa, xb))
        return (r, c, mode, cnt, nontriv, zero, ties, bad)
    with ThreadPoolExecutor(max_workers=max(2, core.NPROC)) as ex:
        results = list(ex.map(do_enum, jobs))
    per_shape = {}
    zero_total = 0
    zero_example = None
    confirm = []
    ties_total = 0
    for (r, c, mode, cnt, nontriv, zero, ties, bad) in results:
        ties_total += ties
        key = "rect:enum %dx%d both modes%s" % (r, c, " (sampled prefixes)" if "sampled" in mode else "")
        per_shape[key] = per_shape.get(key, 0) + cnt
        res.evaluations += 2 * cnt
        res.traces_validated += 2 * cnt
        res.distinct.n += nontriv
        zero_total += zero
        for b in bad:
            if b[0] == KIND_ZERO:
                zero_example = zero_example or b
            elif b[0] == "enumeration out of step":
                res.violation(KIND_ORACLE, "harness and oracle enumerations out of step on %s: %s / %s" % (b[1], b[2], b[3]), {"line": b[1]})
            else:
                confirm.append(b)
    for k, v in per_shape.items():
        res.count(k, v)
    ctx.log("rectangle sweeps: %s" % ", ".join("%s=%d" % kv for kv in sorted(per_shape.items())))
    # mismatches found with the fast reduction are confirmed with the certified one before being reported
    if confirm:
        lines = sorted(set(b[1] for b in confirm), key=len)[:200]
        h, o = run_lines(hdbg, orc, lines)
        bykind = {}
        for l, a, b in zip(lines, h, o):
            kw = classify_rect(l, a, b)
            if kw and kw[0] != OK_TIES:
                bykind.setdefault(kw[0], []).append((l, kw))
        for kind, lst in bykind.items():
            report(lst[0][0], lst[0][1], "dbg")
            for (l, kw) in lst[1:6]:
                res.violation(kw[0], kw[1], {"line": l, "build": "dbg"})
    if zero_total:
        res.count("rect:cases with zero-length pairs emitted (value mode)", zero_total)

    # ---------------- rectangle routine: corpus, random grids, refused sizes
    rl = rect_random_cases(ctx.rng, ctx.tier)
    seen_kinds = {}
    for build, hb in (("dbg", hdbg), ("rel", hrel)):
        sub = rl if build == "dbg" else [l for l in rl if int(l.split()[3]) >= 2 and int(l.split()[4]) >= 2][::2]
        h, o = run_lines(hb, orc, sub)
        for inp, a, b in zip(sub, h, o):
            res.evaluations += 1
            res.traces_validated += 1
            w = inp.split()
            rows, cols = int(w[3]), int(w[4])
            res.count("rect:random %s mode=%s type=%s" % ("side=2" if min(rows, cols) == 2 else ("refused" if min(rows, cols) < 2 else
                      ("cells<=25" if rows * cols <= 25 else "cells>25")), w[2], w[1]))
            if "R 0: | 1: | " not in b:
                res.distinct.add(inp)
            kw = classify_rect(inp, a, b)
            if kw and kw[0] == OK_TIES:
                ties_total += 1
            elif kw and kw[0] == KIND_ZERO:
                zero_total += 1
                zero_example = zero_example or (KIND_ZERO, inp, a, b)
            elif kw:
                seen_kinds.setdefault(kw[0], []).append((inp, kw, build))
    for kind, lst in seen_kinds.items():
        lst.sort(key=lambda t: len(t[0]))
        report(lst[0][0], lst[0][1], lst[0][2])
        for (inp, kw, build) in lst[1:6]:
            res.violation(kw[0], kw[1], {"line": inp, "build": build})
    if ties_total:
        res.count("rect:index-mode answers matching equal values in another order than (value, index) (same values; accepted)", ties_total)
    if zero_example:
        _, inp, a, b = zero_example
        small = shrink_rect(hdbg, orc, inp, KIND_ZERO)
        h, o = run_lines(hdbg, orc, [small], nchunks=1)
        for _ in range(1):
            res.violation(KIND_ZERO, "%s: pairs of zero length are passed to the output functors ('%s'; the non-zero-length intervals are '%s'); "
                          "%d such cases this run" % (small, h[0], o[0], zero_total), {"line": small, "build": "dbg"}, expected=o[0], observed=h[0])

    res.exhaustive = False
    res.rule = ("one case = one call of a routine: (container/value type, comparator, sequence) for the line routine, (value/index type, "
                "output mode, n_rows, n_cols, values) for the rectangle routine; distinct = distinct input lines (weak orders of a sweep are "
                "distinct by construction); non-trivial = line input of length >= 2, rectangle input whose barcode has at least one finite interval")
    rs = [l for l in ll if 6 < len(l.split()) < 30]
    res.samples = [{"line": x} for x in (ctx.rng.sample(rs, min(4, len(rs))) + ctx.rng.sample(rl, min(4, len(rl))))]
    res.notes.append("exhaustive sub-domains this run: every weak order of line inputs of length <= %d; every weak order of the cells of %s in both "
                     "output modes" % (5 if ctx.tier == "quick" else 7, "2x2, 2x3, 3x2" if ctx.tier == "quick" else "2x2, 2x3, 3x2, 2x4, 4x2, 3x3"))
    res.extra["rect_sweeps"] = per_shape
    return core.finish(ctx, None, res, TRUSTED, ASSUMPTIONS, LEVEL, CHECKER, correspondence_name=CORRESPONDENCE)


CHECKER = "cd /verif/coq && make -f Makefile.coq Properties_C14.vo  (coqc 8.16.1; Print Assumptions after every theorem)"
