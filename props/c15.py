"""C15 - copies, moves, swaps and (de)serialisation yield equal, independent objects; no memory error anywhere."""
import itertools, json, os, re, zlib
from vlib import core

LEVEL = "proof"
MANIFEST = dict(
    cat="proof",
    tech="Coq proof of the serialisation round-trip / length-refusal theorems on a byte-level model of Simplex_tree + PAIR-MODE differential "
         "runs of the C++ under AddressSanitizer+UndefinedBehaviorSanitizer (copy/move/swap independence) + ThreadSanitizer (per-thread objects)",
    text="Two halves, carried by different means. (1) PROVED in Coq (unbounded, no axioms) on a byte-level transcription of "
         "Simplex_tree::serialize/rec_serialize/get_serialization_size/deserialize/rec_deserialize over prefix-tree states, for EVERY fixed-width "
         "encoding of the filtration values: the serialisation has exactly get_serialization_size() bytes; deserialising it into an empty tree "
         "gives back the same tree with the exact dimension; every strict prefix and every proper extension of a serialisation is refused "
         "(and the model of the unrepaired reader reads past the end of EVERY strict prefix); the reader never runs out of fuel; the text form "
         "re-read by operator>> rebuilds the tree when values print exactly; the repaired special members return observationally equal states "
         "while the faithful model of the unrepaired ones loses the dirty-dimension flag (refuted with a reachable witness). The model is tied to "
         "the C++ by running both on identical scripts and comparing bytes, exceptions and the whole state of every object after every line. "
         "(2) NOT provable on a functional model (it cannot exhibit aliasing) and therefore RUN-TIME evidence only: independence of copies / "
         "moved-from objects / swapped objects, and absence of memory errors. Pair mode: object A is built by a generated history, B derived by "
         "copy-construct / copy-assign / move-construct / move-assign / swap / self-assignment, A and B are driven through different "
         "continuations, one is destroyed, and after EVERY step every live object is compared with the model (Simplex_tree, 9 option sets) or "
         "with an independently rebuilt object (Matrix<Options> base/boundary/RU/chain flavours, Toplex_map, Lazy_toplex_map, "
         "Bitmap_cubical_complex, Persistence_landscape), all compiled with -fsanitize=address,undefined -fno-sanitize-recover=all; serialised "
         "buffers are truncated at EVERY byte length and extended, each copy living in an exactly-sized heap block; 8 threads build, copy, move "
         "and serialise their own objects from shared const data under ThreadSanitizer.",
    note="Trusted: Coq kernel, extraction + OCaml driver (supplies the IEEE-754 byte layout of the values), the hand transcription (validated by "
         "the differential run), g++ 12.2 and its sanitizer run-times, the generators. Sampled, not proved: everything about aliasing, moved-from "
         "objects, data races; classes other than Simplex_tree have no Coq model here (their semantics are C05-C09/C13/C16/C18). A buffer of the "
         "right length with corrupted content is outside the property (a label not above its parent's yields a cyclic tree).",
    ref="design/C15.md")
CORRESPONDENCE = ("coq/C15_Model.v on coq/C01_Model.v states (extracted: ocaml/c15_oracle.ml) vs harness/c15_drv.cpp (Simplex_tree, pair mode, ASan+UBSan); "
                  "harness/c15_pm_drv.cpp + harness/c15_misc_drv.cpp (pair mode against independently rebuilt objects); harness/c15_tsan.cpp (TSan)")
TRUSTED = [
    "Coq 8.16.1 kernel (coqc, full .vo build); vm_compute only in Examples and _refuted witnesses",
    "extraction (ExtrOcamlBasic only) + OCaml 4.13.1 + ocaml/prelude.ml, ocaml/c15_oracle.ml (line protocol, dump formatting, IEEE-754 byte layout of double/float values)",
    "hand-written algorithm model coq/C15_Model.v (+ coq/C01_Model.v, coq/Trie.v for the operations used as continuations) of Simplex_tree.h; tied to the C++ by differential runs, not by translation",
    "harness/c15_drv.cpp, harness/c15_pair.h, harness/c15_pm_drv.cpp, harness/c15_misc_drv.cpp, harness/c15_tsan.cpp; g++ 12.2 with libasan/libubsan/libtsan; Boost, TBB",
    "the run-time half (independence of copies, memory safety, data races) is sampled evidence under sanitizers, not a theorem",
]
ASSUMPTIONS = [
    "filtration values are integers of small magnitude (exact in double and float, printed exactly by operator<<); NaN/inf are not exercised",
    "vertex labels differ from null_vertex() = -1 and fit in int; sibling sets have fewer than 2^31 members (hypothesis `fits` of the theorems)",
    "deserialize/operator>> receive an EMPTY tree (documented precondition); a non-empty target is refused by GUDHI_CHECK in debug mode (checked), in NDEBUG builds the behaviour is documented as unspecified",
    "a buffer of the announced length whose CONTENT is corrupted is outside the property",
    "serialize/deserialize of user-defined (non-arithmetic) Filtration_value types: the bounds check can only happen after the user's reader returned",
    "threads: each thread owns its objects; shared data are const (the property's wording); no concurrent access to one object is claimed",
]

SAN = ["-fsanitize=address,undefined", "-fno-sanitize-recover=all", "-fno-omit-frame-pointer"]
TSAN = ["-fsanitize=thread", "-fno-omit-frame-pointer"]
ENV = {"ASAN_OPTIONS": "detect_leaks=1:abort_on_error=0:print_legend=0:halt_on_error=1:detect_stack_use_after_return=1",
       "UBSAN_OPTIONS": "print_stacktrace=1:halt_on_error=1"}
WORKERS = 4

# optset id -> (name, value kind for the oracle: d = double, f = float, n = not stored)
OPTSETS = {0: ("default", "d"), 1: ("full_featured", "d"), 2: ("minimal", "n"), 4: ("flat_linked", "d"), 5: ("stable_unlinked", "d"),
           6: ("stable_linked_nokey", "d"), 7: ("float_values", "f"), 8: ("data_linked", "d"), 9: ("data_flat", "d")}
QUICK_SETS = [0, 1, 2, 7, 8]
POOL = [-7, -3, 0, 1, 2, 3, 5, 8, 1000, 1 << 30]
VALUES = [-3, 0, 0, 1, 1, 2, 2, 3, 4, 5, 7, 12]


def faces(s):
    return [c for k in range(1, len(s) + 1) for c in itertools.combinations(s, k)]


class PM:
    """tiny Python tracker of the key set, used ONLY to propose mostly-valid operations (never for a verdict)"""

    def __init__(self, K=None):
        self.K = dict(K or {})

    def leaves(self):
        ks = list(self.K)
        return [s for s in ks if not any(len(t) > len(s) and t[:len(s)] == s for t in ks)]

    def apply(self, op):
        K = self.K
        k = op[0]
        if k == "IF":
            for f in faces(tuple(sorted(set(op[2])))):
                K[f] = min(K.get(f, op[1]), op[1])
        elif k == "IS":
            s = tuple(sorted(op[2]))
            for i in range(1, len(s)):
                K.setdefault(s[:i], op[1])
            K[s] = min(K.get(s, op[1]), op[1])
        elif k == "RM":
            s = tuple(sorted(op[1]))
            if s in K and s in self.leaves():
                del K[s]
        elif k == "PF":
            gone = [s for s, w in K.items() if op[1] < w]
            self.K = {s: w for s, w in K.items() if not any(s[:len(g)] == g for g in gone)}
        elif k == "PD":
            self.K = {s: w for s, w in K.items() if len(s) - 1 <= max(op[1], -1)}
        elif k == "CL":
            self.K = {}


def op_text(op):
    k = op[0]
    if k in ("IF", "IS"):
        return "%s %d %d %s" % (k, op[1], len(op[2]), " ".join(map(str, op[2])))
    if k == "RM":
        return "RM %d %s" % (len(op[1]), " ".join(map(str, op[1])))
    if k in ("PF", "PD"):
        return "%s %d" % (k, op[1])
    return k


class Gen:
    """one pair-mode script for Simplex_tree"""

    def __init__(self, rng, U, kind):
        self.rng, self.U, self.kind = rng, U, kind
        self.lines = []
        self.pm = [None] * 4          # PM per slot (None = no object)
        self.cache = ["E"] * 4        # filtration cache: E empty, V valid, S possibly stale

    def val(self):
        return 0 if self.kind == "n" else self.rng.choice(VALUES)

    def rand_op(self, d):
        rng, pm = self.rng, self.pm[d]
        r = rng.random()
        if r < 0.40 or not pm.K:
            k = rng.choice([1, 2, 2, 3, 3, min(4, len(self.U))])
            s = rng.sample(self.U, min(k, len(self.U)))
            return ("IF" if rng.random() < 0.75 else "IS", self.val(), s if rng.random() < 0.3 else sorted(s))
        if r < 0.62:
            lv = pm.leaves()
            big = [s for s in lv if len(s) > 1] or lv
            return ("RM", list(rng.choice(big if rng.random() < 0.8 else lv)))
        if r < 0.70:
            return ("PF", self.val())
        if r < 0.78:
            return ("PD", rng.choice([-1, 0, 0, 1, 1, 2]))
        if r < 0.81:
            return ("CL",)
        if r < 0.92:
            return ("DM",)
        return (rng.choice(["FI", "KY", "SD"]),)

    def op(self, d, op=None):
        op = op or self.rand_op(d)
        self.lines.append("OP %d %s" % (d, op_text(op)))
        self.pm[d].apply(op)
        if op[0] == "FI":
            self.cache[d] = "V"
        elif op[0] not in ("DM", "KY", "SD") and self.cache[d] == "V":
            self.cache[d] = "S"

    def new(self, d):
        self.lines.append("NEW %d" % d)
        self.pm[d] = PM()
        self.cache[d] = "E"

    def build(self, d, n):
        if self.pm[d] is None:
            self.new(d)
        for _ in range(n):
            self.op(d)

    def live(self):
        return [i for i in range(4) if self.pm[i] is not None]

    def derive(self, kind, d, s):
        self.lines.append("%s %d %d" % (kind, d, s))
        if self.pm[s] is None:
            return
        if kind in ("CC", "CA"):
            if d != s or kind == "CC":
                self.pm[d] = PM(self.pm[s].K)
                if d != s:
                    self.cache[d] = "E"
                else:
                    self.cache[d] = "E"
        elif kind == "MC":
            src = self.pm[s]
            cs = self.cache[s]
            if d != s:
                self.pm[s] = PM()
                self.cache[s] = "E"
            self.pm[d] = PM(src.K)
            self.cache[d] = cs
        elif kind == "MA":
            if d != s:
                self.pm[d] = PM(self.pm[s].K)
                self.cache[d] = self.cache[s]
                self.pm[s] = PM()
                self.cache[s] = "E"
        elif kind == "SW":
            if self.pm[d] is None:
                self.pm[d] = PM()
                self.cache[d] = "E"
            self.pm[d], self.pm[s] = self.pm[s], self.pm[d]
            self.cache[d], self.cache[s] = self.cache[s], self.cache[d]

    def maybe_fo(self, d, p=0.5):
        if self.pm[d] is not None and self.cache[d] in ("E", "V") and self.rng.random() < p:
            self.lines.append("FO %d" % d)
            self.cache[d] = "V" if self.pm[d].K else "E"

    def serial(self, s):
        """serialisation probes on slot s"""
        rng = self.rng
        r = rng.random()
        size = 4 + (8 + {"d": 8, "f": 4, "n": 0}[self.kind]) * len(self.pm[s].K)
        free = [i for i in range(4) if self.pm[i] is None]
        if r < 0.2:
            self.lines.append("SER %d" % s)
        elif r < 0.32:
            self.lines.append("SWEEP %d" % s)
        elif r < 0.42:
            self.lines.append("SERX %d %d" % (s, rng.choice([-size, -5, -4, -1, 1, 3, 8])))
        elif r < 0.8:
            # into a fresh object, an emptied one, or a NON-EMPTY one (must be refused, target untouched)
            tgt = rng.choice(free) if free and rng.random() < 0.6 else rng.choice(self.live())
            mode = rng.random()
            if mode < 0.45:
                m = "F"
            elif mode < 0.8:
                m = "T %d" % rng.choice([0, 1, 3, 4, 5, max(0, size - 1), max(0, size - 4), rng.randrange(size + 1)])
            else:
                m = "E %d %d" % (rng.choice([1, 2, 4, 8, 13]), rng.choice([0, 0, 1, 255]))
            self.lines.append("DES %d %d %s" % (tgt, s, m))
            src = PM(self.pm[s].K)
            if self.pm[tgt] is None:
                self.pm[tgt] = PM()
                self.cache[tgt] = "E"
            if self.pm[tgt].K and tgt != s:
                pass                                   # refused: logic_error
            elif self.pm[tgt].K and tgt == s:
                pass
            else:
                ok = m == "F" or (m.startswith("T") and int(m.split()[1]) >= size)
                self.pm[tgt] = src if ok else PM()
                if self.cache[tgt] == "V":
                    self.cache[tgt] = "S"
        else:
            cand = free + [i for i in self.live() if not self.pm[i].K and i != s]
            if cand:
                tgt = rng.choice(cand)
                # operator<< walks filtration_simplex_range(): the cache must not be stale (documented duty of the caller)
                if self.cache[s] == "S":
                    self.op(s, ("FI",))
                self.lines.append("TXT %d %d" % (tgt, s))
                self.cache[s] = "V" if self.pm[s].K else "E"
                self.pm[tgt] = PM(self.pm[s].K)
                if self.cache[tgt] == "V":
                    self.cache[tgt] = "S"


DERIV = ["CC", "CA", "MC", "MA", "SW"]


def gen_script(rng, kind, n_labels=None, shape=None):
    U = sorted(rng.sample(POOL, n_labels or rng.choice([3, 3, 4, 4, 5])))
    g = Gen(rng, U, kind)
    g.build(0, rng.choice([2, 4, 6, 9, 12]))
    if rng.random() < 0.4:
        g.op(0, ("FI",))
    shape = shape or rng.choice(["pair", "pair", "pair", "chain", "self", "serial"])
    if shape == "self":
        for k in rng.sample(["CA", "MA", "SW", "CC", "MC"], 3):
            g.derive(k, 0, 0)
            g.maybe_fo(0, 0.3)
            g.op(0)
    # target: absent, empty, or a different non-empty object
    t = rng.random()
    if t < 0.35:
        g.build(1, rng.choice([1, 3, 5]))
    elif t < 0.5:
        g.new(1)
    kind1 = rng.choice(DERIV)
    g.derive(kind1, 1, 0)
    g.maybe_fo(1)
    g.maybe_fo(0, 0.3)
    # different continuations, interleaved
    for _ in range(rng.choice([3, 5, 8])):
        d = rng.choice([0, 1])
        g.op(d)
        if rng.random() < 0.15:
            g.serial(rng.choice([0, 1]))
    if shape == "chain":
        for _ in range(rng.choice([2, 3, 4])):
            lv = g.live()
            s = rng.choice(lv)
            d = rng.choice([0, 1, 2, 3])
            g.derive(rng.choice(DERIV), d, s)
            g.maybe_fo(d, 0.3)
            for _ in range(rng.choice([1, 2, 3])):
                g.op(rng.choice(g.live()))
    if shape == "serial":
        for _ in range(rng.choice([3, 5])):
            g.serial(rng.choice(g.live()))
            g.op(rng.choice(g.live()))
    # destroy one of the two, keep driving the other
    victim = rng.choice([0, 1])
    g.lines.append("DEL %d" % victim)
    g.pm[victim] = None
    other = 1 - victim
    for _ in range(rng.choice([2, 4, 6])):
        g.op(other)
        if rng.random() < 0.2:
            g.serial(other)
    g.maybe_fo(other, 0.3)
    if rng.random() < 0.5:
        g.derive(rng.choice(DERIV), victim, other)
        for _ in range(3):
            g.op(rng.choice(g.live()))
        g.lines.append("DEL %d" % other)
        g.pm[other] = None
        if g.pm[victim] is not None:
            g.op(victim)
            g.serial(victim)
    return U, g.lines


def boundary_scripts(kind):
    """aimed at the case splits: the dirty flag through every derivation, moved-from objects reused, deserialisation into emptied /
    moved-from / non-empty trees, empty tree serialised, self-assignments"""
    v = (lambda x: 0) if kind == "n" else (lambda x: x)
    U = [1, 2, 3, 5]
    out = []
    base = ["NEW 0", "OP 0 IF %d 3 1 2 3" % v(1), "OP 0 RM 3 1 2 3"]           # dimension_ = 2, to be lowered
    for k in DERIV:
        for pre in ([], ["NEW 1"], ["NEW 1", "OP 1 IF %d 4 1 2 3 5" % v(2), "OP 1 RM 4 1 2 3 5", "OP 1 RM 3 1 2 3"]):
            out.append((U, base + pre + ["%s 1 0" % k, "OP 1 DM", "OP 0 DM", "OP 0 IF %d 2 1 5" % v(3), "OP 1 IF %d 2 2 5" % v(0),
                                         "OP 0 DM", "SER 0", "DEL 0", "OP 1 RM 2 2 5", "OP 1 DM", "SWEEP 1", "DEL 1"]))
    for k in ("CA", "MA", "SW", "CC", "MC"):
        out.append((U, base + ["%s 0 0" % k, "OP 0 DM", "OP 0 IF %d 2 3 5" % v(1), "%s 0 0" % k, "SER 0", "OP 0 CL", "%s 0 0" % k, "OP 0 DM"]))
    # moved-from objects are empty and usable again (also as deserialisation / text targets)
    for k in ("MC", "MA"):
        out.append((U, base + ["OP 0 FI", "%s 1 0" % k, "FO 1", "OP 0 DM", "DES 0 1 F", "OP 0 DM", "OP 0 CL", "TXT 0 1", "OP 0 DM", "%s 2 0" % k,
                               "OP 0 IS %d 2 1 2" % v(4), "OP 2 DM", "DEL 1", "SWEEP 0", "SWEEP 2", "TXT 1 2", "OP 1 DM", "OP 2 DM"]))
    # deserialize: empty tree, single vertex, into non-empty (refused), after prune (stale dirty dimension), truncations around each field
    out.append((U, ["NEW 0", "SER 0", "SWEEP 0", "DES 1 0 F", "DES 1 0 E 1 0", "DES 1 0 T 0", "DES 1 0 T 3", "OP 0 IS %d 1 2" % v(0), "SER 0", "SWEEP 0",
                    "DES 1 0 F", "DES 1 0 F", "DES 0 0 F", "DES 2 0 T 4", "DES 2 0 T 8", "DES 2 0 T 12", "DES 2 0 T 15", "DES 2 0 F", "SERX 0 -1", "SERX 0 1",
                    "SERX 0 -16", "SERX 0 0"]))
    out.append((U, ["NEW 0", "OP 0 IF %d 3 1 2 3" % v(2), "OP 0 IF %d 2 3 5" % v(1), "OP 0 PF %d" % v(-5 if kind != "n" else -1), "DES 0 0 F", "OP 0 DM",
                    "NEW 1", "OP 1 IF %d 4 1 2 3 5" % v(1), "OP 1 PD 1", "CC 2 1", "DES 3 2 F", "OP 3 DM", "SER 3", "SWEEP 3", "OP 0 CL", "OP 1 FI", "TXT 0 1", "OP 0 DM"]))
    return out


# ------------------------------------------------------------------------------------------------ running
SAN_RE = re.compile(r"ERROR: (AddressSanitizer|LeakSanitizer|ThreadSanitizer): ([A-Za-z0-9_\-]+)|runtime error: ([^\n]{0,80})|"
                    r"WARNING: ThreadSanitizer: ([a-z \-]+)")


def san_kind(err):
    m = SAN_RE.search(err or "")
    if not m:
        return None
    if m.group(1):
        return "%s:%s" % (m.group(1), m.group(2))
    if m.group(3):
        return "UBSan:" + re.sub(r"0x[0-9a-f]+", "ADDR", m.group(3)).strip()[:60]
    return "ThreadSanitizer:" + m.group(4).strip()


def run_scripts(binary, scripts, env=None, timeout=1800, chunk=40):
    """scripts: list of lists of lines (first line = header).  One process per chunk; after a death the rest of the chunk is
    re-run in a new process.  Returns per script (answers (without the header answer), death) with death = None or
    dict(line=index of the line that did not answer, rc, san, err)"""
    e = dict(ENV)
    if env:
        e.update(env)

    def work(idx):
        out = {}
        todo = list(idx)
        while todo:
            text = "".join("\n".join(scripts[i]) + "\n" for i in todo)
            rc, so, se = core.sh_out([binary], input=text, timeout=timeout, env=e)
            lines = so.split("\n")
            if lines and lines[-1] == "":
                lines.pop()
            pos = 0
            nxt = []
            for j, i in enumerate(todo):
                need = len(scripts[i])
                got = lines[pos:pos + need]
                pos += need
                if len(got) == need and not (got and got[-1].startswith("CRASH")):
                    out[i] = (got[1:], None)
                    continue
                crashed = bool(got) and got[-1].startswith("CRASH")
                if crashed:
                    got = got[:-1]
                out[i] = (got[1:], dict(line=min(len(got), len(scripts[i]) - 1), rc=rc, san=san_kind(se), err=(se or "")[:1500],
                                        sig=("CRASH" if crashed else "")))
                nxt = todo[j + 1:]
                break
            else:
                # all answered; a non-zero exit code at the very end = leak report or similar
                if rc != 0 and todo:
                    i = todo[-1]
                    out[i] = (out[i][0], dict(line=len(scripts[i]) - 1, rc=rc, san=san_kind(se) or "exit-code-%d" % rc, err=(se or "")[:1500], sig="at-exit"))
            todo = nxt
        return out
    chunks = [list(range(k, min(len(scripts), k + chunk))) for k in range(0, len(scripts), chunk)]
    res = {}
    for o in core.parallel_map(work, chunks, workers=WORKERS):
        res.update(o)
    return [res[i] for i in range(len(scripts))]


def run_oracle(orc, scripts):
    text = "".join("\n".join(s) + "\n" for s in scripts)
    rc, so, se = core.sh_out([orc], input=text, timeout=3000)
    lines = so.split("\n")
    out, pos = [], 0
    for s in scripts:
        out.append(lines[pos + 1:pos + len(s)])
        pos += len(s)
    return out


SECTIONS = ["ub", "nv", "n", "e", "F", "V", "C", "K", "eq"]


def first_diff(line, a, b):
    """which part of an answer line differs: ('ret', ..) or ('slot', k, section)"""
    if "|" not in a or "|" not in b:
        return ("protocol", a[:120], b[:120])
    ra, da = a.split("|", 1)
    rb, db = b.split("|", 1)
    if ra != rb:
        return ("ret", ra, rb)
    sa, sb = da.split("#"), db.split("#")
    for k, (x, y) in enumerate(zip(sa, sb)):
        if x != y:
            fx, fy = x.split("|"), y.split("|")
            for u, w in zip(fx, fy):
                if u != w:
                    return ("slot", k, u.split("=")[0], u[:200], w[:200])
            return ("slot", k, "presence", x[:60], y[:60])
    return ("len", str(len(sa)), str(len(sb)))


def judge_st(name, script, ans, death, exp):
    """first violation of one Simplex_tree script: (line index in script, kind, what, expected, observed) or None"""
    for i, (a, b) in enumerate(zip(ans, exp)):
        if a == b:
            continue
        line = script[i + 1]
        w = line.split()
        tok = w[0] if w[0] != "OP" else "OP-" + w[2]
        d = first_diff(line, a, b)
        if d[0] == "ret":
            return (i + 1, "st:return-of-%s" % tok, "Simplex_tree<%s>: %s answered %s, the model says %s" % (name, line, d[1][:120], d[2][:120]), d[2][:300], d[1][:300])
        if d[0] == "slot":
            touched = set(int(x) for x in w[1:3] if x.lstrip("-").isdigit() and 0 <= int(x) <= 3) if w[0] != "OP" else {int(w[1])}
            if w[0] in ("SER", "SERX", "SWEEP", "FO"):
                touched = set()
            role = "target" if d[1] in touched else "BYSTANDER"
            return (i + 1, "st:state-after-%s:%s:%s" % (tok, role, d[2]),
                    "Simplex_tree<%s>: after '%s' slot %d (%s of the operation) differs from the model in %s" % (name, line, d[1], role, d[2]), d[4], d[3])
        return (i + 1, "st:protocol", "unparsable answers for %r" % line, b[:200], a[:200])
    if death:
        i = min(death["line"], len(script) - 1)
        line = script[i] if i < len(script) else "?"
        w = line.split()
        tok = (w[0] if w[0] != "OP" else "OP-" + w[2]) if w else "?"
        if death["sig"] == "at-exit":
            return (i, "st:sanitizer-at-exit:%s" % (death["san"] or "?"), "Simplex_tree<%s>: %s reported when the process ended" % (name, death["san"]), "clean exit", death["err"][:600])
        k = death["san"] or (death["sig"] or "died-rc-%s" % death["rc"])
        return (i, "st:sanitizer:%s:%s" % (k, tok), "Simplex_tree<%s>: '%s' ended the process: %s" % (name, line, k), "no report", death["err"][:600])
    if len(ans) != len(exp):
        return (len(ans), "st:protocol", "answer count differs", str(len(exp)), str(len(ans)))
    return None


def crc(s):
    return zlib.crc32(s.encode())


def check(ctx, replay=None):
    res = core.Result()
    thorough = ctx.tier == "thorough"
    if not getattr(ctx, "skip_proof", False):
        ctx.prove(["Extract_C15.vo"])
    orc = ctx.build_oracle("c15")
    try:
        from props import c15_others as others
    except Exception as ex:                       # noqa
        others = None
        res.notes.append("props/c15_others.py not importable (%s): the pair mode of the non-Simplex_tree classes did not run" % ex)
    sets = sorted(OPTSETS) if thorough else QUICK_SETS
    only = os.environ.get("VERIF_C15_ONLY", "")             # development aid: st | others | tsan
    if only and only != "st":
        sets = []
    if only and only != "others":
        others = None
    rp = replay["case"] if replay else None
    if rp and rp.get("part") == "st":
        sets = [rp["optset"]]
    elif rp:
        sets = []
    jobs = [("c15_drv.cpp", "st%d" % k, SAN + ["-DOPTSET=%d" % k]) for k in sets]
    ovars = []
    if others is not None and (not rp or rp.get("part") == "others"):
        ovars = [v for v in others.VARIANTS if (thorough or v.get("quick", True)) and (not rp or v["tag"] == rp["variant"])]
        jobs += [(v["src"], v["tag"], SAN + list(v["flags"])) for v in ovars]
    do_tsan = os.path.exists(os.path.join(core.ROOT, "harness", "c15_tsan.cpp")) and (not rp or rp.get("part") == "tsan") and only in ("", "tsan")
    if do_tsan:
        jobs.append(("c15_tsan.cpp", "tsan", TSAN))
    from concurrent.futures import ThreadPoolExecutor
    bins = {}
    with ThreadPoolExecutor(max_workers=WORKERS) as ex:
        for tag, b in ex.map(lambda j: (j[1], ctx.build_harness(j[0], j[1], j[2], timeout=3000)), jobs):
            bins[tag] = b
    viol = {}                                           # kind -> list of (case, what, exp, obs)

    def add(kind, case, what, exp, obs):
        viol.setdefault(kind, []).append((case, what, exp, obs))

    # ---------------------------------------------------------------- Simplex_tree, pair mode against the model
    fxs = os.environ.get("VERIF_C15_FX", "1")
    for k in sets:
        name, kind = OPTSETS[k]
        rng = __import__("random").Random(ctx.seed * 7919 + crc(name))
        if rp:
            cases = [(rp["universe"], rp["script"], "replay")]
        else:
            cases = []
            cdir = os.path.join(core.ROOT, "corpus", "C15")
            if os.path.isdir(cdir):
                for f in sorted(os.listdir(cdir)):
                    if f.endswith(".json"):
                        c = json.load(open(os.path.join(cdir, f)))
                        if c.get("part") == "st" and (c.get("kind", "d") == kind or kind != "n"):
                            cases.append((c["universe"], c["script"], "corpus"))
            cases += [(U, s, "boundary") for (U, s) in boundary_scripts(kind)]
            for _ in range(1500 if thorough else 220):
                U, s = gen_script(rng, kind)
                cases.append((U, s, "random"))
        scripts = [["H %s %d %s %s" % (fxs, len(U), " ".join(map(str, U)), kind)] + list(s) for (U, s, _) in cases]
        got = run_scripts(bins["st%d" % k], scripts)
        exp = run_oracle(orc, scripts)
        for (U, s, origin), sc, (ans, death), e in zip(cases, scripts, got, exp):
            res.count("simplex_tree:optset:" + name)
            res.count("simplex_tree:origin:" + origin)
            res.distinct.add(("st", name, tuple(sc)))
            v = judge_st(name, sc, ans, death, e)
            n_ok = (v[0] - 1) if v else len(ans)
            res.evaluations += max(0, n_ok)
            res.traces_validated += max(0, n_ok)
            for line in s[:max(0, n_ok)]:
                w = line.split()
                res.count("simplex_tree:op:" + (w[0] if w[0] != "OP" else w[2]))
                if w[0] in ("CA", "MA", "SW", "CC", "MC") and w[1] == w[2]:
                    res.count("simplex_tree:self-" + w[0])
            for a in ans[:max(0, n_ok)]:
                r = a.split("|", 1)[0]
                if r.startswith("r=des:"):
                    res.count("simplex_tree:deserialize:" + {"ok": "loaded", "IA": "refused(invalid_argument)", "LE": "refused(non-empty target)"}.get(r.split(":")[1], r.split(":")[1]))
                if r.startswith("r=sweep:"):
                    res.count("simplex_tree:truncated/extended buffers (each in an exactly-sized heap block)", int(r.split(":")[1]))
            if v:
                li, vk, what, ex_, ob = v
                add(vk, dict(part="st", optset=k, optname=name, universe=U, script=s[:li], kind=kind), what, ex_, ob)
    # ---------------------------------------------------------------- other classes, pair mode against rebuilt objects
    if rp and rp.get("part") == "sweep":
        b = ctx.build_harness(rp["harness"], rp["tag"], SAN + list(rp["flags"]), timeout=3000)
        (ans, death), = run_scripts(b, [rp["script"]])
        if death and (death["san"] or death["sig"] == "CRASH"):
            add("sweep:replay:sanitizer:%s" % (death["san"] or "crash"), rp, "replayed sanitizer report", "no report", death["err"][:700])
    is_probe = bool(rp) and rp.get("part") == "others" and rp["script"][0].endswith("#probe")
    for v in ([] if is_probe else ovars):
        rng = __import__("random").Random(ctx.seed * 104729 + crc(v["tag"]))
        if rp:
            scr = [rp["script"]]
        else:
            scr = others.gen_cases(rng, v, (400 if thorough else 60), ctx.tier)
            cdir = os.path.join(core.ROOT, "corpus", "C15")
            if os.path.isdir(cdir):
                for f in sorted(os.listdir(cdir)):
                    if f.endswith(".json"):
                        c = json.load(open(os.path.join(cdir, f)))
                        if c.get("part") == "others" and c.get("variant") == v["tag"]:
                            scr.insert(0, c["script"])
        got = run_scripts(bins[v["tag"]], scr, chunk=20)
        for sc, (ans, death) in zip(scr, got):
            res.count("pair-mode:" + v["tag"])
            res.distinct.add(("others", v["tag"], tuple(sc)))
            full = ["ok"] + list(ans)
            err = death["err"] if death else ""
            rc = death["rc"] if death else 0
            vs = others.judge(sc, full, err, rc)
            okn = len(ans) if not vs else max(0, min(x[2] for x in vs) - 1)
            res.evaluations += okn
            res.traces_validated += okn
            for line in sc[1:1 + okn]:
                w = line.split()
                if w and w[0] in ("CC", "CA", "MC", "MA", "SW", "D"):
                    res.count("pair-mode:derivation:" + w[0])
            for (vk, what, li, ex_, ob) in vs[:1]:
                add(vk, dict(part="others", variant=v["tag"], script=sc[:li + 1]), what, ex_, ob)
    # ---------------------------------------------------------------- probe: is a moved-from Matrix usable again? (recorded finding)
    for v in ovars:
        if v["src"] != "c15_pm_drv.cpp" or "-DBASE=1" in v["flags"] or (rp and not is_probe):
            continue
        probe = ["H %s #probe" % v["tag"], "N 0 2", "O 0 I 0 0", "MC 1 0", "O 0 I 1 0", "D 0", "D 1"]
        (ans, death), = run_scripts(bins[v["tag"]], [probe])
        res.count("probe:moved-from-matrix")
        a4 = ans[3] if len(ans) > 3 else ""
        if death or not a4.startswith("ok") or "EXC" in a4.split("|")[0]:
            add("pm:moved-from-matrix-not-usable", dict(part="others", variant=v["tag"], script=probe),
                "Matrix<%s>: insert_boundary on a moved-from matrix (null column settings)" % v["tag"], "the moved-from matrix is empty and usable again",
                (death["san"] or death["sig"] or "died") if death else a4[:200])
        break
    # ---------------------------------------------------------------- thorough: the other harnesses of the suite under the sanitizers
    if thorough and not rp and not only:
        sweep_suite(ctx, res, add)
    # ---------------------------------------------------------------- threads
    if do_tsan:
        for rep in range(3 if thorough else 1):
            rc, so, se = core.sh_out([bins["tsan"], str(ctx.seed + rep)], timeout=1800,
                                     env={"TSAN_OPTIONS": "halt_on_error=1:second_deadlock_stack=1"})
            res.count("tsan:runs of 8 threads")
            if rc != 0 or "ThreadSanitizer" in se or not so.strip().endswith("ok"):
                add("tsan:" + (san_kind(se) or "failed-rc-%d" % rc), dict(part="tsan", seed=ctx.seed + rep),
                    "8 threads each building / copying / moving / serialising their own objects from shared const data", "no report, 'ok'", (se or so)[-800:])
            else:
                res.evaluations += 8
                res.traces_validated += 8
    # ---------------------------------------------------------------- shrink (shortest failing prefix is already taken; then greedy deletion)
    for kind_, lst in viol.items():
        lst.sort(key=lambda t: len(json.dumps(t[0])))
        case, what, ex_, ob = lst[0]
        if case.get("part") == "st" and not rp:
            case, what, ex_, ob = shrink_st(bins["st%d" % case["optset"]], orc, case, kind_, what, ex_, ob, fxs)
        for _ in lst:
            res.violation(kind_, what, case, expected=ex_, observed=ob)
    res.rule = ("one case = one pair-mode script (universe/option set or variant, list of lines: build, derive, diverging continuations, destroy, "
                "serialise); distinct = distinct (variant, script); every script derives at least one object; evaluations = script lines after "
                "which the whole observable state of every live object agreed with the model (Simplex_tree) or with an independently rebuilt object")
    res.samples = [dict(part="st", universe=U, script=s[:14]) for (U, s) in [gen_script(__import__("random").Random(ctx.seed), "d") for _ in range(3)]]
    res.notes.append("all harness binaries of this property are compiled with %s; ThreadSanitizer build: %s" % (" ".join(SAN), "yes" if do_tsan else "no"))
    return core.finish(ctx, None, res, TRUSTED, ASSUMPTIONS, LEVEL,
                       "cd /verif/coq && make -f Makefile.coq Properties_C15.vo  (coqc 8.16.1; Print Assumptions after every theorem)",
                       correspondence_name=CORRESPONDENCE)


def sweep_suite(ctx, res, add):
    """'... and in every other check of this suite, no operation touches memory outside live objects or executes undefined
    behaviour': the harnesses of other properties are rebuilt with ASan+UBSan and fed inputs from THEIR generators; only a
    sanitizer report / crash counts here (their answers are judged by their own checks).  Any incompatibility with another
    plugin's generator API is noted, never an alarm."""
    import importlib, random
    plan = []

    def c01():
        m = importlib.import_module("props.c01")
        hs = m.generate(random.Random(ctx.seed + 11), 250)
        return [("c01_drv.cpp", "sweep_c01_o%d" % k, ["-DOPTSET=%d" % k], [[m.header(h["U"])] + list(h["ops"]) for h in hs if k in h["opts"]]) for k in (0, 1, 4, 6)]

    def c16():
        m = importlib.import_module("props.c16")
        cs = [c for c in m.generate(random.Random(ctx.seed + 12), "quick") if c[2] != "exhaustive"][:400]
        return [("c16_drv.cpp", "sweep_c16", [], [["G " + " ".join(map(str, U))] + list(ops) for (U, ops, _) in cs])]

    def c13():
        m = importlib.import_module("props.c13")

        class Fake:
            rng = random.Random(ctx.seed + 13)
            tier = "quick"
        cs = m.generate(Fake)
        cs = cs[::max(1, len(cs) // 250)]
        return [("c13_drv.cpp", "sweep_c13", [], [[c.header()] + list(m.ops_for(c, Fake.rng)) for c in cs])]

    def c10():
        m = importlib.import_module("props.c10")
        g = m.generate(random.Random(ctx.seed + 14), "quick")
        return [("c10_drv.cpp", "sweep_c10", [], [[h] + list(ops[:1500]) for (h, ops) in g.groups])]

    def c20():
        m = importlib.import_module("props.c20")
        g = m.generate(random.Random(ctx.seed + 15), "quick")[0]
        return [("c20_drv.cpp", "sweep_c20", [], [[h] + list(ops[:400]) for (h, ops) in g.groups])]

    def c03():
        m = importlib.import_module("props.c03")

        class Fake:
            rng = random.Random(ctx.seed + 16)
            tier = "quick"
        cs = m.generate(Fake)[0]
        cs = cs[::max(1, len(cs) // 300)]
        # harness/c03_drv.cpp:62 (fmt) shifts a negative mantissa left: UB of that harness before C++20, not of the library
        return [("c03_drv.cpp", "sweep_c03_tbb", ["-DGUDHI_USE_TBB", "-fno-sanitize=shift"], [[c.header()] + list(c.ops) for c in cs])]

    def c17():
        m = importlib.import_module("props.c17")
        hist = list(m.load_corpus()) + list(m.boundary_stream()) + list(m.exhaustive_stream(False))[:400]
        return [("c17_drv.cpp", "sweep_c17", [], [["H " + name.replace(" ", "_")] + list(ops) for (name, ops) in hist])]

    for name, fn in (("C01", c01), ("C16", c16), ("C13", c13), ("C10", c10), ("C20", c20), ("C03", c03), ("C17", c17)):
        try:
            for (src, tag, fl, scripts) in fn():
                scripts = [sc for sc in scripts if len(sc) > 1]
                if scripts:
                    plan.append((name, src, tag, fl, scripts))
        except Exception as ex:                                   # noqa: another plugin changed its generator
            res.notes.append("sanitizer sweep of %s skipped (generator API: %s: %s)" % (name, type(ex).__name__, str(ex)[:120]))
    def build(pl):
        try:
            return ctx.build_harness(pl[1], pl[2], SAN + pl[3], timeout=3000)
        except core.CheckError as ex:
            res.notes.append("sanitizer sweep of %s skipped (build: %s)" % (pl[0], str(ex)[-300:]))
            return None
    built = core.parallel_map(build, plan, workers=WORKERS)
    for (name, src, tag, fl, scripts), b in zip(plan, built):
        if b is None:
            continue
        # the other harnesses were not written to free their own objects at exit: leak detection stays with this property's harnesses
        got = run_scripts(b, scripts, chunk=25, env={"ASAN_OPTIONS": ENV["ASAN_OPTIONS"].replace("detect_leaks=1", "detect_leaks=0")})
        n = 0
        for sc, (ans, death) in zip(scripts, got):
            n += len(ans)
            if death and death["sig"] != "at-exit" and (death["san"] or death["sig"] == "CRASH"):
                i = min(death["line"], len(sc) - 1)
                add("sweep:%s:sanitizer:%s" % (name, death["san"] or "crash"), dict(part="sweep", harness=src, tag=tag, flags=fl, script=sc[:i + 1]),
                    "harness of %s rebuilt with ASan+UBSan: '%s' ended the process" % (name, sc[i][:120]), "no report", death["err"][:700])
        res.count("sanitizer sweep of other harnesses:%s (%s)" % (name, tag), n)
        res.evaluations += n


def shrink_st(binary, orc, case, kind_, what, ex_, ob, fxs, budget=60):
    name = case["optname"]
    cur = list(case["script"])
    hdr = "H %s %d %s %s" % (fxs, len(case["universe"]), " ".join(map(str, case["universe"])), case["kind"])

    def test(lines):
        sc = [hdr] + lines
        (ans, death), = run_scripts(binary, [sc])
        e, = run_oracle(orc, [sc])
        return judge_st(name, sc, ans, death, e)
    changed = True
    best = (what, ex_, ob)
    while changed and budget > 0:
        changed = False
        for j in range(len(cur) - 2, -1, -1):
            cand = cur[:j] + cur[j + 1:]
            budget -= 1
            v = test(cand)
            if v and v[1] == kind_:
                cur = cand[:v[0]]
                best = (v[2], v[3], v[4])
                changed = True
                break
            if budget <= 0:
                break
    c = dict(case)
    c["script"] = cur
    return c, best[0], best[1], best[2]
