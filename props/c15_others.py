"""C15, run-time half for the value-like classes other than Simplex_tree: PAIR-MODE scripts for harness/c15_pm_drv.cpp
(Matrix<Options>) and harness/c15_misc_drv.cpp (Toplex_map, Lazy_toplex_map, Bitmap_cubical_complex, Persistence_landscape).
The harness (harness/c15_pair.h) keeps up to four objects, derives one from another by copy/move construction, copy/move
assignment and swap, and after EVERY line compares each live object with an object rebuilt from scratch out of its own
history.  This module generates the scripts (a shadow of every slot steers the generator towards valid operations) and
judges the answers.  Python 3 standard library only.

  VARIANTS                     option sets / classes (tag, src, flags, kind, derivs, moved_ops, quick: built in the quick tier too)
  build_jobs(san_flags)        -> [(src, tag, flags)] for Ctx.build_many / build_harness
  gen_cases(rng, variant, n, tier, moved_ops=None) -> [script]     script = list of lines, first line "H ..."
  judge(script, answers, stderr, rc, variant=None) -> [(kind, what, line_index, expected, observed)]
  run_script(binary, script)   -> (answers, stderr, rc)             one process per script
  shrink(binary, script, variant) -> shortest failing prefix
self-test:  python3 props/c15_others.py <bin> <variant-tag> <seed> [n]
"""
import itertools, os, re, subprocess, sys

SAN_DEFAULT = ["-fsanitize=address,undefined", "-fno-sanitize-recover=all", "-fno-omit-frame-pointer"]
ALL_DERIVS = ["CC", "CA", "MC", "MA", "SW"]


def _pm(tag, kind, **d):
    return dict(tag=tag, src="c15_pm_drv.cpp", kind=kind, d=d, flags=["-D%s=%s" % kv for kv in sorted(d.items())], derivs=list(ALL_DERIVS),
                # a moved-from Matrix has colSettings_ == nullptr: every operation except destruction, assignment-to and swap
                # dereferences it (see the report); the generator drives moved-from matrices only on request
                moved_ops=False, fam="pm")


def _misc(tag, kind, k, derivs, moved_ops):
    return dict(tag=tag, src="c15_misc_drv.cpp", kind=kind, d={"KIND": k}, flags=["-DKIND=%d" % k], derivs=derivs, moved_ops=moved_ops, fam=kind)


VARIANTS = [
    # base matrices (macros of c09_drv.cpp)
    _pm("b_ilist_zp_rows_rem", "pm-base", BASE=1, COLT="INTRUSIVE_LIST", Z2=0, ROWS=1, INTR_ROWS=1, REM_ROWS=1),
    _pm("b_vector_z2_mapc", "pm-base", BASE=1, COLT="VECTOR", Z2=1, MAPC=1),
    _pm("b_heap_zp", "pm-base", BASE=1, COLT="HEAP", Z2=0),
    _pm("b_set_zp_swaps_rows", "pm-base", BASE=1, COLT="SET", Z2=0, SWAPS=1, ROWS=1, INTR_ROWS=0),
    _pm("b_iset_zp_compr_rows", "pm-base", BASE=1, COLT="INTRUSIVE_SET", Z2=0, COMPR=1, ROWS=1, INTR_ROWS=1),
    # boundary matrices (R only, lazily reduced)
    _pm("bd_iset_z2", "pm-boundary", COLT="INTRUSIVE_SET", Z2=1, PAIR=1),
    _pm("bd_list_zp_rows_remc", "pm-boundary", COLT="LIST", Z2=0, ROWS=1, INTR_ROWS=0, REM_COLS=1, PAIR=1),
    # RU
    _pm("ru_vine_iset_introws", "pm-ru", COLT="INTRUSIVE_SET", Z2=1, VINE=1, ROWS=1, INTR_ROWS=1),
    _pm("ru_rep_set_zp_mapc_remc", "pm-ru", COLT="SET", Z2=0, REP=1, MAPC=1, REM_COLS=1),
    _pm("ru_vine_rep_vector_rows_remc", "pm-ru", COLT="VECTOR", Z2=1, VINE=1, REP=1, MAPC=1, REM_COLS=1, ROWS=1, INTR_ROWS=0, REM_ROWS=1),
    # chain
    _pm("ch_vine_ilist_introws", "pm-chain", BOUNDARY=0, COLT="INTRUSIVE_LIST", Z2=1, VINE=1, ROWS=1, INTR_ROWS=1),
    _pm("ch_rep_set_zp", "pm-chain", BOUNDARY=0, COLT="SET", Z2=0, REP=1),
    _pm("ch_vine_uset_mapc_remc", "pm-chain", BOUNDARY=0, COLT="UNORDERED_SET", Z2=1, VINE=1, MAPC=1, REM_COLS=1, PAIR=1, ROWS=1, INTR_ROWS=0, REM_ROWS=1),
    # chain matrix addressed by identifiers (Id_to_index_overlay over a chain matrix: its dictionary is a member of the chain matrix)
    _pm("ch_ide_list_z2", "pm-chain", BOUNDARY=0, IDX="IDENTIFIER", COLT="LIST", Z2=1, PAIR=1),
    # further option sets (thorough tier)
    _pm("b_iset_z2_introws_mapc_swaps", "pm-base", BASE=1, COLT="INTRUSIVE_SET", Z2=1, ROWS=1, INTR_ROWS=1, REM_ROWS=1, MAPC=1, SWAPS=1),
    _pm("bd_ilist_zp_introws_mapc_remc", "pm-boundary", COLT="INTRUSIVE_LIST", Z2=0, ROWS=1, INTR_ROWS=1, REM_ROWS=1, MAPC=1, REM_COLS=1, PAIR=1, MAXDIM=1),
    _pm("ru_vine_list_mapc_remc_introws", "pm-ru", COLT="LIST", Z2=1, VINE=1, MAPC=1, REM_COLS=1, ROWS=1, INTR_ROWS=1, REM_ROWS=1, MAXDIM=1),
    _pm("ch_vine_pos_iset_introws_remc", "pm-chain", BOUNDARY=0, IDX="POSITION", COLT="INTRUSIVE_SET", Z2=1, VINE=1, MAPC=1, REM_COLS=1, PAIR=1, ROWS=1, INTR_ROWS=1, REM_ROWS=1, MAXDIM=1),
    # the other classes; the toplex maps have const data members: no assignment, no swap
    _misc("toplex", "toplex", 1, ["CC", "MC"], True),
    _misc("lazy_toplex", "lazy", 2, ["CC", "MC"], True),
    _misc("cubical", "cubical", 3, list(ALL_DERIVS), False),
    _misc("cubical_periodic", "cubicalp", 5, list(ALL_DERIVS), False),
    _misc("landscape", "landscape", 4, list(ALL_DERIVS), True),
]


for _v in VARIANTS:
    _v["quick"] = _v["tag"] in ("b_ilist_zp_rows_rem", "b_set_zp_swaps_rows", "bd_list_zp_rows_remc", "ru_vine_iset_introws",
                                "ru_vine_rep_vector_rows_remc", "ru_rep_set_zp_mapc_remc", "ch_rep_set_zp", "ch_vine_ilist_introws", "ch_vine_uset_mapc_remc", "ch_ide_list_z2", "toplex", "lazy_toplex",
                                "cubical", "landscape")


def variant(tag):
    for v in VARIANTS:
        if v["tag"] == tag:
            return v
    raise KeyError(tag)


def build_jobs(san_flags=None):
    san = list(SAN_DEFAULT if san_flags is None else san_flags)
    return [(v["src"], "c15_" + v["tag"], san + v["flags"]) for v in VARIANTS]


# ------------------------------------------------------------------------------------------------ shadows
class Complex:
    """small filtered simplicial complex, faces first; bds[c] = [(face cell, +-1)]"""

    def __init__(self, rng):
        nv = rng.randint(3, 5)
        simp = set()
        for _ in range(rng.randint(1, 3)):
            s = tuple(sorted(rng.sample(range(nv), rng.randint(1, min(nv, 3)))))
            for r in range(1, len(s) + 1):
                simp.update(itertools.combinations(s, r))
        for v in range(nv):
            if rng.random() < 0.7:
                simp.add((v,))
        index, placed, rem = {}, [], set(simp)
        while rem:
            ready = sorted(s for s in rem if len(s) == 1 or all((s[:i] + s[i + 1:]) in index for i in range(len(s))))
            s = rng.choice(ready)
            index[s] = len(placed)
            placed.append(s)
            rem.discard(s)
        self.dims = [len(s) - 1 for s in placed]
        self.bds = [[] if len(s) == 1 else sorted((index[s[:i] + s[i + 1:]], 1 if i % 2 == 0 else -1) for i in range(len(s))) for s in placed]
        self.faces = [set(i for i, _ in b) for b in self.bds]


class PmShadow:
    """boundary / RU / chain matrix: which cells are present at which position"""

    def __init__(self, rng, var, like=None):
        d = var["d"]
        self.var, self.d = var, d
        self.chain = var["kind"] == "pm-chain"
        self.bonly = var["kind"] == "pm-boundary"
        z2 = int(d.get("Z2", 1))
        self.p = like.p if like else (2 if z2 else rng.choice([2, 3, 5, 7]))
        self.nargs = "%d" % self.p
        self.cx = Complex(rng)
        self.order, self.removed, self.ids = [], [], {}
        self.nextid = 0
        self.reduced = self.swapped = False

    def clone(self):
        c = PmShadow.__new__(PmShadow)
        c.__dict__.update(self.__dict__)
        c.order, c.removed, c.ids = list(self.order), list(self.removed), dict(self.ids)
        return c

    def fresh_like(self, rng):
        return PmShadow(rng, self.var, like=self)

    def can(self, what):
        d = self.d
        remc, vine, mapc, pair, rep = (int(d.get(k, dflt)) for k, dflt in (("REM_COLS", 0), ("VINE", 0), ("MAPC", 0), ("PAIR", 1), ("REP", 0)))
        if what == "RL":
            return bool(remc) and not (self.chain and vine and not mapc) and not (self.chain and rep)
        if what == "VS":
            return bool(vine)
        if what == "RM":
            return bool(remc and vine and (not self.chain or (mapc and pair))) and not (self.chain and rep)
        if what == "REP":
            return bool(rep)
        if what == "BC":
            return bool(pair)
        return True

    def gen_op(self, rng):
        cx, order = self.cx, self.order
        m = len(order)
        present = set(order)
        cand = []
        ins = [c for c in range(len(cx.dims)) if c not in present and cx.faces[c] <= present]
        # chain + vine: no insertion after a swap (recorded C06 situation); boundary-only: none after the reduction;
        # chain: identifiers are never reused, and equal the position as long as nothing was removed (representatives need that)
        if ins and not (self.chain and self.swapped) and not (self.bonly and self.reduced) and not (self.chain and self.d.get("REP") and self.removed):
            cand += ["I"] * (6 if m < 6 else 3)
        if self.can("VS") and m >= 2 and any(order[k] not in cx.faces[order[k + 1]] for k in range(m - 1)) and not (self.d.get("REP") and self.chain):
            cand += ["VS"] * (1 if (self.chain and ins and not self.swapped and m < 7) else 4)
        if self.can("RM") and m >= 1:
            cand += ["RM"]
        if self.can("RL") and m >= 1:
            cand += ["RL"]
        if self.can("BC") and (not self.bonly or (not ins and not self.reduced) or rng.random() < 0.15):
            cand += ["BC"]
        if self.can("REP"):
            cand += ["REP"] * 2
        if not cand:
            return None
        w = rng.choice(cand)
        mod = self.p
        if w == "I":
            c = rng.choice(ins[:2]) if rng.random() < 0.7 else rng.choice(ins)
            cid = self.nextid if self.chain else m
            self.nextid = max(self.nextid, cid) + 1
            ents = []
            for (f, v) in cx.bds[c]:
                v %= mod
                if v:
                    ents.append((self.ids[f] if self.chain else order.index(f), v))
            ents.sort()
            self.ids[c] = cid
            order.append(c)
            return "I %d %d %s" % (cid, cx.dims[c], " ".join("%d:%d" % e for e in ents))
        if w == "VS":
            ks = [k for k in range(m - 1) if order[k] not in cx.faces[order[k + 1]]]
            same = [k for k in ks if cx.dims[order[k]] == cx.dims[order[k + 1]]]
            k = rng.choice(same) if same and rng.random() < 0.7 else rng.choice(ks)
            order[k], order[k + 1] = order[k + 1], order[k]
            self.swapped = True
            return "VS %d" % k
        if w == "RM":
            mx = [k for k in range(m) if not any(order[k] in cx.faces[c] for c in present)]
            k = rng.choice(mx)
            self.removed.append(order.pop(k))
            return "RM %d" % k
        if w == "RL":
            self.removed.append(order.pop())
            return "RL"
        if w == "BC":
            self.reduced = True
            return "BC"
        return "REP"


class BaseShadow:
    NR, B = 6, 7

    def __init__(self, rng, var, like=None):
        d = var["d"]
        self.var, self.d = var, d
        self.p = like.p if like else (2 if int(d.get("Z2", 0)) else rng.choice([2, 3, 5, 7]))
        self.nargs = "%d %d %d" % (self.p, self.NR, self.B)
        self.mapc, self.compr, self.swaps = (int(d.get(k, 0)) for k in ("MAPC", "COMPR", "SWAPS"))
        self.cols, self.next = set(), 0

    def clone(self):
        c = BaseShadow.__new__(BaseShadow)
        c.__dict__.update(self.__dict__)
        c.cols = set(self.cols)
        return c

    def fresh_like(self, rng):
        return BaseShadow(rng, self.var, like=self)

    def gen_op(self, rng):
        p = self.p
        cols = sorted(self.cols)
        r = rng.random()
        if not cols or (r < 0.22 and self.next < self.B):
            if self.next >= self.B:
                return None
            rows = sorted(rng.sample(range(self.NR), rng.randint(0, 4)))
            ents = " ".join("%d:%d" % (x, rng.randint(1, p - 1) if p > 2 else 1) for x in rows)
            self.cols.add(self.next)
            self.next += 1
            return ("IC " + ents).strip()
        if r < 0.62:
            s, t = rng.choice(cols), rng.choice(cols)
            form = rng.choice(["ADD", "MTA", "MSA"])
            c = rng.randint(0, p - 1) if rng.random() < 0.9 else rng.randint(p, 2 * p)
            return "ADD %d %d" % (s, t) if form == "ADD" else "MTA %d %d %d" % (s, c, t) if form == "MTA" else "MSA %d %d %d" % (c, s, t)
        if r < 0.72 and not self.compr:
            return "ZE %d %d" % (rng.choice(cols), rng.randrange(self.NR))
        if r < 0.76 and not self.compr:
            return "ZC %d" % rng.choice(cols)
        if r < 0.82 and not self.compr and self.next > 0:
            self.next -= 1
            self.cols.discard(self.next)
            return "RL"
        if r < 0.86 and self.mapc and not self.compr:
            j = rng.choice(cols)
            self.cols.discard(j)
            if j == self.next - 1:
                self.next -= 1
            return "RC %d" % j
        if r < 0.94 and self.swaps and not self.compr:
            return "SR %d %d" % (rng.randrange(self.NR), rng.randrange(self.NR))
        if self.swaps and not self.compr:
            return "SC %d %d" % (rng.choice(cols), rng.choice(cols))
        s, t = rng.choice(cols), rng.choice(cols)
        return "ADD %d %d" % (s, t)


def _base_lazy_op(self, rng):
    """a lazily performed operation of the base matrix: the row permutation is only applied at the next read"""
    if self.swaps and not self.compr and self.cols:
        a, b = rng.sample(range(self.NR), 2)
        return "SR %d %d" % (a, b)
    return None


BaseShadow.lazy_op = _base_lazy_op


class ToplexShadow:
    def __init__(self, rng, var, like=None):
        self.var = var
        self.n = like.n if like else rng.randint(3, 5)
        self.nargs = "%d" % self.n
        self.lazy = var["kind"] == "lazy"
        self.ins = []

    def clone(self):
        c = ToplexShadow.__new__(ToplexShadow)
        c.__dict__.update(self.__dict__)
        c.ins = list(self.ins)
        return c

    def fresh_like(self, rng):
        return ToplexShadow(rng, self.var, like=self)

    def gen_op(self, rng):
        n = self.n
        r = rng.random()

        def simplex(kmax):
            return sorted(rng.sample(range(n), rng.randint(1, min(n, kmax))))
        if r < 0.45 or not self.ins:
            s = simplex(4)
            self.ins.append(s)
            return "I " + " ".join(map(str, s))
        if r < 0.70:
            s = rng.choice(self.ins)
            s = sorted(rng.sample(s, rng.randint(1, len(s)))) if rng.random() < 0.8 else simplex(2)
            return "R " + " ".join(map(str, s))
        if r < 0.78:
            return "V %d" % rng.randrange(n)
        if r < 0.93 or not self.lazy:
            x, y = rng.sample(range(n), 2)
            return "C %d %d" % (x, y)
        return "F %d" % rng.choice([1, 3, 9, 17])


class CubicalShadow:
    def __init__(self, rng, var, like=None):
        self.var = var
        per = var["kind"] == "cubicalp"
        d = rng.randint(1, 3)
        sizes = [rng.randint(2 if per else 1, 3 if d < 3 else 2) for _ in range(d)]
        mask = [rng.random() < 0.6 for _ in range(d)] if per else [False] * d
        ntop = 1
        self.n = 1
        for s, mk in zip(sizes, mask):
            ntop *= s
            self.n *= 2 * s + (0 if mk else 1)
        vals = [rng.randint(0, 9) for _ in range(ntop)]
        self.nargs = " ".join(map(str, [d] + sizes + ([int(b) for b in mask] if per else []) + vals))

    def clone(self):
        c = CubicalShadow.__new__(CubicalShadow)
        c.__dict__.update(self.__dict__)
        return c

    def fresh_like(self, rng):
        return self.clone()

    def gen_op(self, rng):
        r = rng.random()
        if r < 0.45:
            return "SET %d %d" % (rng.randrange(self.n), rng.randint(-3, 12))
        if r < 0.60:
            return "LSF"
        if r < 0.72:
            return "BIN %d" % rng.randint(1, 4)
        if r < 0.85:
            return "IF"
        return "KEY %d %d" % (rng.randrange(self.n), rng.randrange(50))


class LandscapeShadow:
    def __init__(self, rng, var, like=None):
        self.var = var
        self.den = like.den if like else rng.choice([1, 2, 4])
        self.nargs = ("%d " % self.den) + self.diag(rng, rng.randint(0, 5))

    @staticmethod
    def diag(rng, k):
        pts = []
        for _ in range(k):
            b = rng.randint(0, 12)
            pts.append("%d:%d" % (b, b + rng.randint(1, 10)))
        return " ".join(pts)

    def clone(self):
        c = LandscapeShadow.__new__(LandscapeShadow)
        c.__dict__.update(self.__dict__)
        return c

    def fresh_like(self, rng):
        return self.clone()

    def gen_op(self, rng):
        r = rng.random()
        if r < 0.35:
            return "ADD " + self.diag(rng, rng.randint(1, 3))
        if r < 0.55:
            return "SUB " + self.diag(rng, rng.randint(1, 3))
        if r < 0.75:
            return "MUL %d %d" % (rng.choice([-3, -2, -1, 1, 2, 3, 5, 0]), rng.choice([1, 2, 4]))
        if r < 0.88:
            return "DIV %d %d" % (rng.choice([-2, -1, 1, 2, 4]), rng.choice([1, 2]))
        return "ABS"


SHADOW = {"pm-base": BaseShadow, "pm-boundary": PmShadow, "pm-ru": PmShadow, "pm-chain": PmShadow, "toplex": ToplexShadow, "lazy": ToplexShadow,
          "cubical": CubicalShadow, "cubicalp": CubicalShadow, "landscape": LandscapeShadow}


# ------------------------------------------------------------------------------------------------ scripts
class _Gen:
    def __init__(self, rng, var, tier, moved_ops):
        self.rng, self.var = rng, var
        self.long = tier == "thorough"
        self.moved_ops = var["moved_ops"] if moved_ops is None else moved_ops
        self.S = [None] * 4          # shadows
        self.st = ["null"] * 4       # null | live | moved | unknown
        self.lines = []

    def new(self, d, like=None):
        sh = like.fresh_like(self.rng) if like is not None else SHADOW[self.var["kind"]](self.rng, self.var)
        self.S[d], self.st[d] = sh, "live"
        self.lines.append("N %d %s" % (d, sh.nargs))

    def drive(self, d, k):
        for _ in range(k):
            if self.st[d] == "moved" and not self.moved_ops:
                return
            if self.st[d] in ("null", "unknown"):
                return
            op = self.S[d].gen_op(self.rng)
            if op is None:
                return
            self.lines.append("O %d %s" % (d, op))
            self.st[d] = "live"

    def delete(self, d):
        rng = self.rng
        if self.st[d] == "live" and rng.random() < 0.3:
            op = self.S[d].gen_op(rng)
            if op:
                self.lines.append("X %d %s" % (d, op))
                self.S[d], self.st[d] = None, "null"
                return
        self.lines.append("D %d" % d)
        self.S[d], self.st[d] = None, "null"

    def usable_source(self, s):
        return self.st[s] == "live" or (self.st[s] == "moved" and self.moved_ops)

    def derive(self, w, d, s):
        """emit derivation w with destination d and source s (the caller checked that the source is usable)"""
        rng, S, st = self.rng, self.S, self.st
        if w in ("CA", "MA", "SW") and d != s:
            # target: absent (the harness makes a fresh one), fresh and empty, or a different NON-empty object
            mode = rng.choice(["keep", "null", "empty", "nonempty", "nonempty"])
            if mode == "null" and st[d] != "null":
                self.delete(d)
            elif mode in ("empty", "nonempty") or st[d] == "unknown":
                self.new(d)
                if mode == "nonempty":
                    self.drive(d, rng.randint(3, 10))
        # sometimes the source (or the target) has deferred work pending at the moment of the derivation: an operation
        # that the class performs lazily, issued as a quiet line (no read of any slot before the derivation)
        for k in ((s, d) if rng.random() < 0.5 else (d, s)):
            sh = S[k]
            if st[k] == "live" and sh is not None and hasattr(sh, "lazy_op") and rng.random() < 0.35:
                op = sh.lazy_op(rng)
                if op:
                    self.lines.append("Q %d %s" % (k, op))
                    break
        self.lines.append("%s %d %d" % (w, d, s))
        if d == s:
            if w == "MA":
                st[d] = "unknown"   # self-move: valid but unspecified; only destroyed or overwritten afterwards
            return
        if w == "CC" or w == "CA":
            S[d], st[d] = S[s].clone(), st[s]
        elif w in ("MC", "MA"):
            S[d], st[d] = S[s], st[s]
            S[s], st[s] = S[d].fresh_like(rng), "moved"
        else:
            if st[d] == "null":   # the harness swapped with a fresh object made from the N arguments of the source
                S[d], st[d] = S[s].fresh_like(rng), "live"
            S[d], S[s] = S[s], S[d]
            st[d], st[s] = st[s], st[d]

    def continuation(self, slots):
        """drive the given slots through DIFFERENT continuations, destroy one in the middle, keep driving the rest"""
        rng = self.rng
        steps = rng.randint(4, 14 if self.long else 9)
        kill_at = rng.randrange(1, steps) if rng.random() < 0.8 else -1
        for t in range(steps):
            alive = [k for k in slots if self.st[k] == "live" or (self.st[k] == "moved" and self.moved_ops)]
            if not alive:
                break
            if t == kill_at:
                cand = [k for k in slots if self.st[k] != "null"]
                if len(cand) >= 2 or (cand and rng.random() < 0.2):
                    self.delete(rng.choice(cand))
                    continue
            self.drive(rng.choice(alive), rng.randint(1, 3))

    def case(self, idx):
        rng, var = self.rng, self.var
        derivs = var["derivs"]
        self.lines = ["H %s #%d" % (var["tag"], idx)]
        self.new(0)
        self.drive(0, rng.randint(5, 25 if self.long else 14))
        w = derivs[idx % len(derivs)]
        if idx % (3 * len(derivs)) >= 2 * len(derivs) and rng.random() < 0.5 and w != "CC" and w != "MC":
            if w == "MA":             # self-move leaves an unspecified state: done on a copy, which is only destroyed later
                self.derive("CC", 2, 0)
                self.derive("MA", 2, 2)
            else:
                self.derive(w, 0, 0)  # self-assignment / self-swap of a non-trivial object
            self.continuation([0])
            w = rng.choice(derivs)
            if self.st[0] != "live":
                self.new(0)
                self.drive(0, rng.randint(4, 12))
        self.derive(w, 1, 0)
        self.continuation([0, 1])
        for _ in range(rng.randint(0, 3)):
            src = [k for k in range(4) if self.usable_source(k)]
            if not src:
                break
            s = rng.choice(src)
            w = rng.choice(derivs)
            if w in ("CC", "MC"):
                d = rng.choice([k for k in range(4) if k != s])
            else:
                d = rng.randrange(4) if rng.random() < 0.85 else s
            if w == "SW" and self.st[d] == "unknown":
                continue
            self.derive(w, d, s)
            self.continuation([k for k in range(4) if self.st[k] != "null"])
        # every object is destroyed inside the script (in a random order), so that a failing destructor is attributed to a line
        rest = [k for k in range(4) if self.st[k] != "null"]
        rng.shuffle(rest)
        for k in rest:
            self.lines.append("D %d" % k)
        return self.lines


def gen_cases(rng, var, n, tier="quick", moved_ops=None):
    """n scripts for the variant; every derivation kind the class supports is the first derivation of about n/len(derivs) scripts"""
    out = []
    for i in range(n):
        out.append(_Gen(rng, var, tier, moved_ops).case(i))
    return out


def moved_probe_scripts(var):
    """what a moved-from object supports beyond destruction / assignment-to / swap: one tiny script per question"""
    sh = SHADOW[var["kind"]]
    import random
    g = _Gen(random.Random(5), var, "quick", True)
    g.new(0)
    g.drive(0, 6)
    pre = ["H probe"] + g.lines
    out = {}
    if "MC" in var["derivs"]:
        out["read"] = pre + ["MC 1 0"]
        g2 = g.S[0].fresh_like(g.rng)
        op = g2.gen_op(g.rng)
        out["operate"] = pre + ["MC 1 0", "O 0 " + (op or "NOP")]
        out["copy-from"] = pre + ["MC 1 0", "CC 2 0"]
        if "CA" in var["derivs"]:
            out["assign-to"] = pre + ["MC 1 0", "CA 0 1", "O 0 " + (g.S[0].clone().gen_op(g.rng) or "NOP")]
        if "SW" in var["derivs"]:
            out["swap"] = pre + ["MC 1 0", "SW 0 1", "SW 0 1"]
    return out


# ------------------------------------------------------------------------------------------------ running and judging
def run_script(binary, script, timeout=600, env=None):
    e = dict(os.environ)
    e.setdefault("ASAN_OPTIONS", "detect_leaks=1:abort_on_error=0:allocator_may_return_null=1")
    e.setdefault("UBSAN_OPTIONS", "print_stacktrace=1")
    if env:
        e.update(env)
    try:
        p = subprocess.run([binary], input="\n".join(script) + "\n", stdout=subprocess.PIPE, stderr=subprocess.PIPE, timeout=timeout,
                           env=e, text=True, errors="replace")
        rc, out, err = p.returncode, p.stdout, p.stderr
    except subprocess.TimeoutExpired as ex:
        def dec(x):
            return "" if x is None else (x.decode("utf8", "replace") if isinstance(x, bytes) else x)
        rc, out, err = 124, dec(ex.stdout), dec(ex.stderr) + "\n[timeout]"
    answers = out.split("\n")
    if answers and answers[-1] == "":
        answers.pop()
    return answers, err, rc


_ASAN = re.compile(r"ERROR: (?:AddressSanitizer|LeakSanitizer): ([A-Za-z0-9_-]+)(?: ([A-Za-z0-9_-]+))?")
_UBSAN = re.compile(r"runtime error: ([^\n]*)")


def sanitizer_type(stderr):
    m = _ASAN.search(stderr or "")
    if m:
        t = m.group(1)
        if t == "detected":
            return "leak"
        if t == "attempting":
            return m.group(2) or "bad-free"
        return t
    m = _UBSAN.search(stderr or "")
    if m:
        t = m.group(1)
        for key, name in (("null pointer", "ubsan-null"), ("misaligned", "ubsan-misaligned"), ("overflow", "ubsan-overflow"),
                          ("out of bounds", "ubsan-bounds"), ("without returning a value", "ubsan-missing-return"),
                          ("not a valid value", "ubsan-invalid-value"), ("does not point to an object of type", "ubsan-vptr")):
            if key in t:
                return name
        return "ubsan-other"
    return None


def _last_derivation(script, upto, slot=None):
    """the last derivation line at or before `upto` (touching `slot` when given): (name, line index)"""
    for i in range(min(upto, len(script) - 1), 0, -1):
        w = script[i].split()
        if w and w[0] in ALL_DERIVS:
            if slot is None or str(slot) in w[1:3]:
                name = w[0]
                if slot is not None and w[0] in ("MC", "MA") and w[2] == str(slot) and w[1] != w[2]:
                    name += "-source"
                if w[1] == w[2]:
                    name = "self-" + name
                return name, i
    return "none", 0


def _states(script, upto):
    """null / live / moved state of the four slots before line `upto`"""
    st = ["null"] * 4
    for l in script[1:upto]:
        w = l.split()
        if not w:
            continue
        if w[0] in ("N", "O", "Q"):
            st[int(w[1])] = "live"
        elif w[0] in ("D", "X"):
            st[int(w[1])] = "null"
        elif w[0] in ALL_DERIVS:
            d, s = int(w[1]), int(w[2])
            if d == s:
                continue
            if w[0] in ("CC", "CA"):
                st[d] = st[s]
            elif w[0] in ("MC", "MA"):
                st[d], st[s] = st[s], "moved"
            else:
                if st[d] == "null":
                    st[d] = "live"
                st[d], st[s] = st[s], st[d]
    return st


def judge(script, answers, stderr, rc, variant=None):
    """answers[i] = answer to script[i] (shorter than the script when the process died: the first unanswered line is the
    culprit; an END line after the last answer, printed by the harness at end of input, is accepted and ignored).
    -> list of (kind, what, line_index, expected, observed); empty when the script passed.
    The variant is taken from the H line ("H <tag> ...") unless given."""
    if variant is None:
        w = script[0].split() if script else []
        try:
            variant = globals()["variant"](w[1]) if len(w) > 1 else None
        except KeyError:
            variant = None
    fam = (variant or {}).get("fam", "c15")
    tag = (variant or {}).get("tag", "?")
    pre = "pm:%s:" % tag if fam == "pm" else "misc:%s:" % fam
    stderr = stderr or ""
    rc = rc or 0
    out = []
    n = len(script)
    for i, a in enumerate(answers[:n]):
        if a.startswith("ok"):
            continue
        m = re.match(r"(MISMATCH|STATUS-MISMATCH|MOVEDFROM-NOT-EMPTY) slot=(\d+) got=(.*?) want=(.*)$", a, re.S)
        if m:
            slot = int(m.group(2))
            name, at = _last_derivation(script, i, slot)
            if m.group(1) == "MOVEDFROM-NOT-EMPTY":
                kind = pre + "moved-from-not-empty"
            elif m.group(1) == "STATUS-MISMATCH":
                kind = pre + "status-mismatch-after-" + name
            else:
                kind = pre + "mismatch-after-" + name
            if m.group(1) == "MOVEDFROM-NOT-EMPTY" and fam in ("landscape", "cubical", "cubicalp"):
                # "a moved-from object is empty and usable again" is stated by the property for simplex trees and matrices;
                # for the other value classes only independence and memory safety are demanded (a moved-from
                # Persistence_landscape keeps its two vectorisation counters, which is harmless and not a violation)
                continue
            if m.group(1) == "MOVEDFROM-NOT-EMPTY":
                # the harness goes on (the slot stays moved-from): reported once, the rest of the script is still judged
                if not any(k == kind for (k, _, _, _, _) in out):
                    out.append((kind, "line %d `%s`: the moved-from object in slot %d is not the empty object" % (i, script[i], slot), i,
                                m.group(4)[:2000], m.group(3)[:2000]))
                continue
            out.append((kind, "line %d `%s`: slot %d differs from the object rebuilt from its own history (last derivation touching it: %s at line %d)"
                        % (i, script[i], slot, name, at), i, m.group(4)[:2000], m.group(3)[:2000]))
            return out
        if a.startswith("CRASH"):
            break   # handled below as a died process (the answer of this line is the CRASH line)
        if a.startswith("DUMP-EXC"):
            out.append((pre + "exception-while-reading", "line %d `%s`: %s" % (i, script[i], a), i, "readable state", a))
            return out
        out.append((pre + "script-error", "line %d `%s` answered `%s` (generator / harness protocol problem, not a verdict)" % (i, script[i], a), i, "ok", a))
        return out
    answered = len([a for a in answers[:n] if not a.startswith("CRASH")])
    crashed = any(a.startswith("CRASH") for a in answers)
    ended = len(answers) > n and answers[n] == "END"
    if rc == 0 and answered >= n and not crashed:
        return out
    st = sanitizer_type(stderr)
    if rc == 124:
        st = "hang"
    line = min(answered, n)   # the line being processed when the process died (n = final destruction of all slots)
    name, at = _last_derivation(script, min(line, n - 1))
    where = ("line %d `%s`" % (line, script[line])) if line < n else "the final destruction of all slots"
    excerpt = ""
    if stderr:
        keep = []
        for l in stderr.split("\n"):
            m = re.search(r"[^\s:]+:\d+:\d+: runtime error: .*", l)
            if m:
                keep.append(m.group(0))
            elif "ERROR:" in l or l.lstrip().startswith("#") or l.startswith("SUMMARY"):
                keep.append(l[:300])
        excerpt = "\n".join(keep[:14])
    if st == "leak" and answered >= n:
        out.append((pre + "sanitizer:leak", "memory leaked by the script (reported at exit); last derivation %s at line %d\n%s" % (name, at, excerpt), n, "no leak", "leak"))
        return out
    # an operation applied to (or a copy taken from) a moved-from object is its own situation
    on_moved = False
    if line < n:
        sts = _states(script, line)
        w = script[line].split()
        if w and w[0] in ("O", "X", "Q"):
            on_moved = sts[int(w[1])] == "moved"
        elif w and w[0] in ("CC", "CA", "MC", "MA"):
            on_moved = sts[int(w[2])] == "moved"
    sig = [a.split()[1] for a in answers if a.startswith("CRASH ") and len(a.split()) > 1]
    kind = pre + ("moved-from-unusable:" if on_moved else "") + (("sanitizer:" + st) if st and st != "hang" else "hang" if st == "hang" else
                                                                  "crash" + ("-" + sig[0] if sig else ""))
    out.append((kind, "%s: process died (rc=%s) after derivation %s at line %d\n%s" % (where, rc, name, at, excerpt), line,
                "every line answered", (answers[-1] if answers else "") + " / rc=%s" % rc))
    return out


def shrink(binary, script, var=None, timeout=600):
    """shortest failing prefix (lines are never removed from the middle: the remaining history would no longer be a valid
    one), closed by the destruction of the surviving slots when that keeps the same violation"""
    a, e, rc = run_script(binary, script, timeout)
    v = judge(script, a, e, rc, var)
    if not v:
        return script, v
    best = script[:min(len(script), v[0][2] + 1)]
    a, e, rc = run_script(binary, best, timeout)
    vv = judge(best, a, e, rc, var)
    if not vv or vv[0][0] != v[0][0]:
        return script, v
    return best, vv


def main(argv):
    import random
    if len(argv) < 4:
        print(__doc__)
        print("variants:", " ".join(v["tag"] for v in VARIANTS))
        return 2
    binary, tag, seed = argv[1], argv[2], int(argv[3])
    n = int(argv[4]) if len(argv) > 4 else 50
    var = variant(tag)
    rng = random.Random(seed)
    if len(argv) > 5 and argv[5] == "probe":
        for q, sc in moved_probe_scripts(var).items():
            a, e, rc = run_script(binary, sc)
            v = judge(sc, a, e, rc, var)
            print("moved-from %-10s: %s" % (q, (v[0][0] + " @ " + sc[min(v[0][2], len(sc) - 1)]) if v else "ok   (" + (a[len(sc) - 1] if len(a) >= len(sc) else "?")[:80] + ")"))
        return 0
    cases = gen_cases(rng, var, n, os.environ.get("C15_TIER", "quick"), moved_ops={"1": True, "0": False}.get(os.environ.get("C15_MOVED_OPS")))
    kinds, nl, ops = {}, 0, {}
    shortest = {}
    for sc in cases:
        for l in sc:
            w = l.split()
            key = w[0] if w[0] != "O" else "O:" + w[2]
            ops[key] = ops.get(key, 0) + 1
        a, e, rc = run_script(binary, sc)
        nl += len(sc)
        for v in judge(sc, a, e, rc, var):
            kinds[v[0]] = kinds.get(v[0], 0) + 1
            if v[0] not in shortest or v[2] < shortest[v[0]][1][2]:
                shortest[v[0]] = (sc, v)
    print("%s seed=%d: %d scripts, %d lines; ops %s" % (tag, seed, len(cases), nl, " ".join("%s=%d" % kv for kv in sorted(ops.items()))))
    if not kinds:
        print("no violation")
        return 0
    for k, c in sorted(kinds.items()):
        print("VIOLATION %s x%d" % (k, c))
    for k in sorted(shortest):
        sc, v = shortest[k]
        small, vv = shrink(binary, sc, var)
        print("--- %s, shortest failing prefix (%d lines):" % (k, len(small)))
        print("\n".join(small))
        for x in (vv or [v])[:1]:
            print("what=%s\nline=%d\nexpected=%s\nobserved=%s" % (x[1][:1500], x[2], str(x[3])[:500], str(x[4])[:500]))
    return 1


if __name__ == "__main__":
    sys.exit(main(sys.argv))
