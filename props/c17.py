"""C17 - skeleton-blocker complexes track the abstract complex through edits and contractions."""
import glob, itertools, json, os
from vlib import core

LEVEL = "proof"
MANIFEST = dict(
    cat="proof",
    tech="Coq proofs about the (graph, blockers) representation and about a transcription of the editing code + differential "
         "correspondence of the C++ with the extracted transcription and with the extracted abstract complex after every operation",
    text="Coq theorems, unbounded (29, all closed under the global context): a closed complex is exactly the set of vertex lists "
         "containing no minimal non-face, and a blocker list that represents it and whose members have all proper faces present IS "
         "the set of minimal non-faces of dimension >= 2; minimal non-faces induced by star removal and simplex insertion, image "
         "of a complex under the vertex identification of a contraction (closed; independent of freeing the simplices blocked through "
         "ab); for the transcription of the C++: contains = gamma(graph, blockers), add_vertex, add_edge, add_edge_without_blockers, add_blocker, remove_star(simplex of "
         "dimension >= 2) in every state, remove_star(vertex) / remove_star(edge) in every state without a blocker that has >= 3 "
         "further vertices, each keeping the invariant 'contains = K, stored blockers = minimal non-faces of K'; concrete witnesses "
         "refute remove_star(vertex/edge) inside a larger blocker (recorded finding).  The C++ is run on generated histories "
         "(<= 30 operations, <= 8 vertex slots, plus every pair of admissible operations after 8 base complexes) against the "
         "extracted transcription AND the extracted abstract complex: contains() on every subset, blocker set vs minimal non-faces, "
         "counts, simplex range, components, link condition, links of simplices after every step; Betti numbers over Z_2, Z_3 "
         "(certified reduction of ReduceExec.v) and Euler characteristic before/after every contraction of an edge satisfying the "
         "link condition; the same histories through a build with the library's assertions enabled.",
    note="Trusted: Coq kernel, extraction + OCaml driver, the hand transcription (tied to the C++ by the differential run only), g++/Boost. "
         "Not formalised: link condition => homotopy equivalence (measured through Betti numbers and Euler characteristic); "
         "contract_edge, add_simplex and the link/iterator code are compared, not proved.  Recorded finding: remove_star of a vertex/edge "
         "inside a blocker with >= 3 further vertices deletes a simplex outside the star (asserted by an existing unit test).",
    ref="design/C17.md")
CORRESPONDENCE = ("coq/C17_Model.v part 2 (algorithm model) and part 3 (abstract complex), extracted: ocaml/c17_oracle.ml, vs "
                  "harness/c17_drv.cpp on identical operation lines, whole observable state after every operation")
TRUSTED = [
    "Coq 8.16.1 kernel (coqc, full .vo build); vm_compute only inside Examples and the refutation witnesses",
    "extraction (ExtrOcamlBasic only; Z stays inductive) + OCaml 4.13.1 + ocaml/prelude.ml, ocaml/c17_oracle.ml (parsing, printing, "
    "enumeration of the subsets for the contains() mask)",
    "hand-written transcription coq/C17_Model.v part 2 of Skeleton_blocker_complex.h, Skeleton_blocker_simplifiable_complex.h, "
    "Skeleton_blocker_link_complex.h, Skeleton_blocker_sub_complex.h (tied to the C++ by the differential run, not by translation)",
    "harness/c17_drv.cpp, g++ 12.2 -O1 -DNDEBUG, Boost.Graph",
    "un-formalised mathematics: an edge contraction that satisfies the link condition is a homotopy equivalence "
    "(Dey-Edelsbrunner-Guha-Nekhayev; Attali-Lieutier-Salinas for the blocker form) - measured, not proved; "
    "Betti numbers = number of unpaired columns of the reduced boundary matrix (reduction certified by coq/ReduceExec.v)",
]
ASSUMPTIONS = [
    "operations are called within the preconditions asserted or documented by the C++ (vertices present - for add_simplex: present "
    "or not created yet -, add_simplex of a non-simplex of dimension >= 2, remove_star of a simplex of the complex, add_blocker of a simplex of the complex not inside a larger blocker, "
    "contract_edge of an existing edge)",
    "the harness is compiled with -DNDEBUG (as the library's RelWithDebInfo tests are); Vertex_handle = int",
    "complex_simplex_range is compared as a multiset with the set of subsets accepted by contains(); its traversal is not modelled",
]
MAXSLOTS = 8
KF_KIND = "remove_star(vertex|edge)-inside-blocker-with->=3-other-vertices:sub-blocker-added"


# --------------------------------------------------------------------------- python copy of the abstract complex (generation only)
class Spec:
    def __init__(self):
        self.n = 0
        self.K = set()

    def copy(self):
        s = Spec()
        s.n = self.n
        s.K = set(self.K)
        return s

    def verts(self):
        return sorted(next(iter(s)) for s in self.K if len(s) == 1)

    def edges(self):
        return sorted(tuple(sorted(s)) for s in self.K if len(s) == 2)

    def mnf(self):
        vs = self.verts()
        out = []
        for r in range(3, len(vs) + 1):
            for c in itertools.combinations(vs, r):
                f = frozenset(c)
                if f not in self.K and all((f - {v}) in self.K for v in c):
                    out.append(f)
        return out

    def faces(self, s):
        s = sorted(s)
        for r in range(1, len(s) + 1):
            for c in itertools.combinations(s, r):
                yield frozenset(c)

    def valid(self, op, a):
        """precondition of an operation line"""
        V = set(self.verts())
        f = frozenset(a)
        if op == "av":
            return self.n < MAXSLOTS
        if op in ("ae", "aw"):
            return len(a) == 2 and a[0] != a[1] and set(a) <= V
        if op == "as":
            # vertices of the simplex are active ones or not created yet (>= number of slots; add_simplex creates them)
            return (len(f) >= 3 and len(f) == len(a) and all((v in V) or (self.n <= v < MAXSLOTS) for v in f)
                    and f not in self.K)
        if op == "ab":
            return len(f) >= 3 and len(f) == len(a) and f in self.K and not any(f < b for b in self.mnf())
        if op == "rv":
            return len(a) == 1 and a[0] in V
        if op in ("re", "ce"):
            return len(a) == 2 and a[0] != a[1] and frozenset(a) in self.K
        if op == "ci":
            return len(a) == 2 and a[0] != a[1] and set(a) <= V and frozenset(a) not in self.K
        if op == "rs":
            return len(f) >= 1 and len(f) == len(a) and f in self.K
        if op == "cp":
            return True
        if op == "lk":
            return 1 <= len(f) <= 3 and len(f) == len(a) and f in self.K
        return False

    def trigger(self, op, a):
        """predicate of the recorded finding: star removal of a vertex or an edge contained in a minimal non-face that has
        at least three further vertices"""
        if op not in ("rv", "re", "rs") or len(a) > 2:
            return False
        f = frozenset(a)
        return any(f < b and len(b) - len(f) >= 3 for b in self.mnf())

    def apply(self, op, a):
        f = frozenset(a)
        if op == "av":
            self.K.add(frozenset([self.n]))
            self.n += 1
        elif op == "ae":
            self.K.add(f)
        elif op == "aw" and f not in self.K:
            x, y = a
            new = set()
            for t in self.K:
                if y in t and x not in t and ((t - {y}) | {x}) in self.K:
                    new.add(t | {x})
            self.K |= new
        elif op == "as":
            while self.n <= max(a):
                self.K.add(frozenset([self.n]))
                self.n += 1
            self.K |= set(self.faces(a))
        elif op in ("ab", "rv", "re", "rs"):
            self.K = {t for t in self.K if not f <= t}
        elif op in ("ce", "ci"):
            x, y = a
            self.K = {frozenset((t - {y}) | {x}) if y in t else t for t in self.K}

    def mk(self, n, tops):
        self.n = n
        self.K = {frozenset([i]) for i in range(n)}
        for t in tops:
            self.K |= set(self.faces(t))


def line(op, a):
    return (op + " " + " ".join(map(str, a))).strip()


def parse(l):
    w = l.split()
    if w[0] == "mk":
        n = int(w[1])
        tops, cur = [], []
        for t in w[2:]:
            if t == ";":
                if cur:
                    tops.append(cur)
                cur = []
            else:
                cur.append(int(t))
        if cur:
            tops.append(cur)
        return "mk", (n, tops)
    return w[0], [int(x) for x in w[1:]]


def simulate(ops):
    """run the python abstract complex over a history; returns (valid, index of first trigger or None)"""
    s = Spec()
    trig = None
    for i, l in enumerate(ops):
        op, a = parse(l)
        if op == "mk":
            if i != 0 or a[0] > MAXSLOTS or any(max(t) >= a[0] or min(t) < 0 for t in a[1]):
                return False, None
            s.mk(*a)
            continue
        if not s.valid(op, a):
            return False, None
        if trig is None and s.trigger(op, a):
            trig = i
        s.apply(op, a)
    return True, trig


# --------------------------------------------------------------------------- generators
def random_history(rng, length, style, allow_trigger):
    s = Spec()
    ops = []

    def do(op, a):
        ops.append(line(op, a))
        s.apply(op, a)

    if style == "mk":
        n = rng.randint(3, 7)
        tops = []
        for _ in range(rng.randint(1, 6)):
            k = rng.choice([2, 2, 3, 3, 3, 4, 4, 5])
            tops.append(sorted(rng.sample(range(n), min(k, n))))
        ops.append("mk %d ; %s" % (n, " ; ".join(" ".join(map(str, t)) for t in tops)))
        s.mk(n, tops)
    elif style == "skeleton":
        # arbitrary 1-skeleton, then an arbitrary admissible blocker set
        n = rng.randint(4, 7)
        for _ in range(n):
            do("av", [])
        p = rng.choice([0.5, 0.7, 0.9, 1.0])
        for x in range(n):
            for y in range(x + 1, n):
                if rng.random() < p:
                    do("aw", [x, y] if rng.random() < 0.5 else [y, x])
        for _ in range(rng.randint(0, 5)):
            cand = [sorted(t) for t in s.K if len(t) >= 3]
            rng.shuffle(cand)
            for t in cand[:6]:
                if s.valid("ab", t):
                    do("ab", t)
                    break
    elif style == "hollow":
        n = rng.randint(4, 7)
        for _ in range(n):
            do("av", [])
        core_v = sorted(rng.sample(range(n), rng.randint(4, min(n, 6))))
        for x in range(n):
            for y in range(x + 1, n):
                if (x in core_v and y in core_v) or rng.random() < 0.5:
                    do("aw", [x, y])
        do("ab", core_v)
    else:
        for _ in range(rng.randint(2, 6)):
            do("av", [])
    tries = 0
    while len(ops) < length and tries < 400:
        tries += 1
        V = s.verts()
        nV = len(V)
        if nV < 2 and s.n >= MAXSLOTS:
            break
        if allow_trigger and rng.random() < 0.35:
            # aim at the recorded defect: a vertex or an edge inside a minimal non-face with >= 3 further vertices
            big = [b for b in s.mnf() if len(b) >= 4]
            if big:
                b = sorted(rng.choice(big))
                k = 1 if (len(b) < 5 or rng.random() < 0.5) else 2
                a = rng.sample(b, k)
                kind = "rv" if k == 1 else rng.choice(["re", "rs"])
                if k == 1 and rng.random() < 0.3:
                    kind = "rs"
                if s.valid(kind, a) and s.trigger(kind, a):
                    do(kind, a)
                    break
        kind = rng.choices(["av", "ae", "aw", "as", "ab", "rv", "re", "rs", "ce", "cp", "ci", "lk"],
                           [2.0 if nV < 4 else 0.6, 3, 1.5, 3, 1.5, 0.4 if nV > 3 else 0.1, 1.2, 2.5,
                            2.5 if nV > 3 else 0.5, 0.1, 0.2, 1.2 if nV > 3 else 0.2])[0]
        a = []
        if kind in ("ae", "aw", "ci"):
            if len(V) < 2:
                continue
            a = rng.sample(V, 2)
        elif kind == "as":
            if len(V) < 3:
                continue
            a = sorted(rng.sample(V, min(len(V), rng.choice([3, 3, 3, 4, 4, 5]))))
            if s.n < MAXSLOTS and rng.random() < 0.12:
                # a vertex that does not exist yet: add_simplex creates it (and the slots below it)
                a = sorted(set(a[:-1] + [rng.randrange(s.n, MAXSLOTS)]))
        elif kind == "lk":
            cand = [sorted(t) for t in s.K if len(t) <= 3]
            if not cand:
                continue
            a = rng.choice(cand)
        elif kind in ("ab", "rs"):
            cand = [sorted(t) for t in s.K if (len(t) >= 3 or (kind == "rs" and rng.random() < 0.3))]
            if not cand:
                continue
            a = rng.choice(cand)
        elif kind == "rv":
            if not V:
                continue
            a = [rng.choice(V)]
        elif kind in ("re", "ce"):
            E = s.edges()
            if not E:
                continue
            a = list(rng.choice(E))
            if rng.random() < 0.5:
                a.reverse()
        if not s.valid(kind, a):
            continue
        if s.trigger(kind, a):
            if not allow_trigger:
                continue
            do(kind, a)
            break          # the state after the recorded defect is not meaningful: end the history here
        do(kind, a)
    return ops


def boundary_stream():
    """hand-made histories aimed at the case splits: hollow simplices, star removal inside blockers of every codimension,
    contraction with and without the link condition, insertion that fills holes"""
    out = []

    def complete(n, fill="aw"):
        ops = ["av"] * n
        for x in range(n):
            for y in range(x + 1, n):
                ops.append("%s %d %d" % (fill, x, y))
        return ops
    for n in (3, 4, 5, 6):
        hollow = complete(n) + ["ab " + " ".join(map(str, range(n)))]
        out.append(("hollow%d-rv" % n, hollow + ["rv 0"]))
        out.append(("hollow%d-rv-last" % n, hollow + ["rv %d" % (n - 1)]))
        out.append(("hollow%d-re" % n, hollow + ["re 0 1"]))
        out.append(("hollow%d-rs-edge" % n, hollow + ["rs 0 1"]))
        out.append(("hollow%d-rs-vertex" % n, hollow + ["rs 1"]))
        if n >= 4:
            out.append(("hollow%d-rs-triangle" % n, hollow + ["rs 0 1 2", "rs 1 2 3"]))
        out.append(("hollow%d-ce" % n, hollow + ["ce 0 1"] + (["ce 0 2"] if n > 3 else [])))
        out.append(("hollow%d-ce-rev" % n, hollow + ["ce %d 0" % (n - 1)]))
        out.append(("hollow%d-fill" % n, hollow + ["as " + " ".join(map(str, range(n))), "cp"]))
        out.append(("flag%d-by-add_edge" % n, complete(n, "ae") + ["as " + " ".join(map(str, range(n)))]))
    # octahedron (flag complex, a 2-sphere): contractions until the link condition fails
    octa = ["av"] * 6 + ["aw %d %d" % (x, y) for x in range(6) for y in range(x + 1, 6) if (x, y) not in ((0, 3), (1, 4), (2, 5))]
    out.append(("octahedron-contractions", octa + ["ce 0 1", "ce 0 2", "ce 0 4", "ce 3 5"]))
    out.append(("octahedron-remove-add", octa + ["rs 0 1 2", "as 0 1 2", "re 0 1", "ae 0 1", "as 0 1 2", "as 0 1 5", "rv 3"]))
    # two hollow triangles sharing an edge, contraction of the shared edge and of a free edge
    two = ["av"] * 4 + ["ae 0 1", "ae 0 2", "ae 1 2", "ae 0 3", "ae 1 3"]
    out.append(("two-cycles-ce-shared", two + ["ce 0 1"]))
    out.append(("two-cycles-ce-free", two + ["ce 2 0", "ce 3 1"]))
    # blockers through a and through b that merge after the contraction (test_skeleton_blocker_simplifiable_contraction1/2)
    c5 = complete(5)
    out.append(("contraction1", c5 + ["re 1 4", "ab 0 2 3", "ab 1 2 3", "ce 0 1"]))
    out.append(("contraction2", c5 + ["re 1 2", "ab 0 1 3", "ab 0 2 3 4", "ce 0 1"]))
    # nested blockers and insertion of a simplex containing several blockers
    out.append(("nested-blockers-fill", complete(5) + ["ab 0 1 2", "ab 0 1 3", "ab 2 3 4", "as 0 1 2 3", "as 0 1 2 3 4"]))
    out.append(("add_simplex-new-edges", ["av"] * 5 + ["ae 0 1", "ae 1 2", "ae 3 4", "as 0 1 2", "as 1 2 3 4", "rs 1 2", "as 0 1 2"]))
    # star removal of an edge inside blockers of each size
    for n in (4, 5, 6):
        out.append(("edge-in-blocker-%d" % n, complete(n) + ["ab " + " ".join(map(str, range(n))), "re 0 %d" % (n - 1)]))
    out.append(("vertex-in-two-blockers", complete(6) + ["ab 0 1 2", "ab 0 3 4 5", "rv 0"]))
    out.append(("constructor-hollow", ["mk 4 ; 0 1 2 ; 0 1 3 ; 0 2 3 ; 1 2 3", "ce 0 1", "rs 0 2 3", "as 0 2 3"]))
    # identification of two non-adjacent vertices through contract_edge
    out.append(("identify-square", ["av"] * 4 + ["ae 0 2", "ae 1 2", "ae 1 3", "ae 0 3", "ci 0 1"]))
    out.append(("identify-with-blocker", ["av"] * 5 + ["aw 0 2", "aw 0 3", "aw 2 3", "aw 1 2", "aw 1 3", "aw 1 4", "aw 0 4", "ab 0 2 3", "ci 0 1"]))
    # links of vertices, edges and triangles in complexes with blockers of several sizes
    out.append(("links-hollow5", complete(5) + ["ab 0 1 2 3 4", "lk 0", "lk 0 1", "lk 0 1 2", "rs 0 1 2", "lk 0", "lk 3", "lk 0 3", "lk 3 4"]))
    out.append(("links-k6-blockers", complete(6) + ["ab 0 1 2", "ab 0 3 4 5", "ab 1 3 4", "lk 0", "lk 1", "lk 3", "lk 0 3", "lk 1 2", "lk 4 5",
                                                    "lk 3 4 5", "lk 2 3 4"]))
    # add_simplex with vertices that do not exist yet, with and without deactivated slots below
    out.append(("add_simplex-new-vertex", ["av"] * 3 + ["as 0 2 3", "as 0 1 5", "cp"]))
    out.append(("add_simplex-new-vertex-after-removal", ["av"] * 3 + ["rv 1", "as 0 2 3", "as 0 3 4"]))
    out.append(("add_simplex-new-vertex-after-contraction", ["av"] * 4 + ["ae 0 1", "ae 1 2", "ce 0 1", "as 0 2 4", "rv 3", "as 0 2 5"]))
    out.append(("constructor-mixed", ["mk 6 ; 0 1 2 3 ; 2 3 4 ; 4 5 ; 0 5", "cp", "ce 4 5", "rs 2 3", "as 0 2 3"]))
    return out


def load_corpus():
    out = []
    d = os.path.join(core.ROOT, "corpus", "C17")
    for f in sorted(glob.glob(os.path.join(d, "*.txt"))):
        ops = [l.strip() for l in open(f) if l.strip() and not l.startswith("#")]
        out.append(("corpus:" + os.path.basename(f), ops))
    return out


# --------------------------------------------------------------------------- running and comparing
FIELDS = ["nv", "ne", "nb", "V", "E", "B", "S", "ns", "R", "cc", "LC"]


def fields(s):
    d = {}
    for tok in s.split():
        if "=" in tok:
            k, v = tok.split("=", 1)
            d[k] = v
        else:
            d[tok] = True
    return d


def diff_fields(a, b):
    fa, fb = fields(a), fields(b)
    return [k for k in sorted(set(fa) | set(fb)) if fa.get(k) != fb.get(k)]


BATCH = 40


def batched(run, hist):
    """several histories per process (an "H name" line starts a fresh complex); returns [(header answer, [answers])]"""
    groups = []
    for k in range(0, len(hist), BATCH):
        lines = []
        for (name, ops) in hist[k:k + BATCH]:
            lines.append("H " + name.replace(" ", "_"))
            lines.extend(ops)
        groups.append(("H batch", lines))
    answers = run(groups)
    out = []
    for k, (h, ans) in zip(range(0, len(hist), BATCH), answers):
        pos = 0
        for (name, ops) in hist[k:k + BATCH]:
            out.append((ans[pos], ans[pos + 1:pos + 1 + len(ops)]))
            pos += 1 + len(ops)
    return out


def run_histories(drv, orc, hist, betti=True):
    obs = batched(lambda g: core.run_grouped_parallel(drv, g), hist)
    exp = batched(lambda g: run_oracle(orc, g, betti), hist)
    return obs, exp


def run_oracle(orc, groups, betti=True, thr=3):
    """the oracle takes its arguments on the command line: wrap it in a small shell script-free call"""
    wrapper = os.path.join(core.CACHE, "c17_oracle_run_%d_%s.sh" % (thr, "b" if betti else "n"))
    if not os.path.exists(wrapper) or open(wrapper).read().find(orc) < 0:
        with open(wrapper, "w") as f:
            f.write("#!/bin/sh\nexec %s %d %s\n" % (orc, thr, "" if betti else "nobetti"))
        os.chmod(wrapper, 0o755)
    return core.run_grouped_parallel(wrapper, groups)


def judge(name, ops, obs, exp, res, trig):
    """compare one history; returns a violation dict (first one) or None"""
    for i, (l, o, e) in enumerate(zip(ops, obs, exp)):
        op = l.split()[0]
        res.evaluations += 1
        res.count("op:" + op)
        parts = e.split(" ## ")
        if len(parts) != 3:
            return dict(kind="oracle-error", what="history %s step %d (%s): oracle answered %r" % (name, i, l, e[:200]), step=i,
                        expected=e, observed=o)
        model, spec, extra = parts
        model, spec = model.strip(), spec.strip()
        if "NOT-CLOSED" in spec:
            return dict(kind="spec:not-closed", what="history %s step %d (%s): the abstract complex is not closed" % (name, i, l),
                        step=i, expected=spec, observed=o)
        if o == spec and i == len(ops) - 1:
            fo = fields(o)
            res.count("final-state:blockers=%s" % fo.get("nb"))
            res.count("final-state:vertices=%s" % fo.get("nv"))
            res.count("final-state:max-simplex-dim=%d" % (max([len(x.split(".")) for x in fo.get("R", "-").split(",") if x != "-"] + [0]) - 1))
        if o != spec:
            d = diff_fields(o, spec)
            if trig is not None and i == trig and o == model:
                kind = KF_KIND
            elif trig is not None and i == trig:
                kind = "remove_star(vertex|edge)-inside-blocker:differs-from-abstract-complex-and-from-transcription"
            else:
                kind = "%s:%s-differ-from-abstract-complex" % (op, "+".join(d[:4]) if not (o.startswith("CRASH") or o.startswith("DIED")) else "crash")
            return dict(kind=kind, what="history %s step %d (%s): implementation differs from the abstract complex in %s%s"
                        % (name, i, l, ",".join(d), "" if o == model else " (and from the transcription)"), step=i,
                        expected=spec, observed=o)
        if o != model:
            d = diff_fields(o, model)
            return dict(kind="correspondence:%s" % op, what="history %s step %d (%s): implementation agrees with the abstract complex but "
                        "not with the transcribed algorithm in %s" % (name, i, l, ",".join(d)), step=i, expected=model, observed=o,
                        no_input=True)
        if op == "ce":
            x = fields(extra)
            res.count("contract:lc=" + str(x.get("lc")))
            if x.get("lc") == "1":
                bad = []
                for k in ("chi", "b2", "b3"):
                    v = x.get(k)
                    if not v or "CERT" in v or len(v.split("/")) != 2 or v.split("/")[0] != v.split("/")[1]:
                        bad.append("%s=%s" % (k, v))
                if bad:
                    return dict(kind="contract_edge:link-condition-holds-but-homology-changes",
                                what="history %s step %d (%s): %s" % (name, i, l, " ".join(bad)), step=i, expected="equal", observed=extra)
                res.count("contract:betti-checked")
    return None


def evaluate(ctx, drv, orc, hist, res, shrink=True, drv_assert=None):
    """hist: list of (name, ops).  Runs everything, records violations (shrunk)."""
    obs, exp = run_histories(drv, orc, hist)
    shrunk = {}
    if drv_assert:
        # the same histories through a build with the library's assert()s enabled (cut before the recorded defect, whose
        # first symptom in a debug build may be an assertion): every answer must be identical to the NDEBUG build
        cut = []
        for (name, ops) in hist:
            ok, trig = simulate(ops)
            cut.append((name, ops if (ok and trig is None) else (ops[:trig] if ok else [])))
        obs_a = batched(lambda g: core.run_grouped_parallel(drv_assert, g), cut)
        for (name, ops), (h1, a1), (h2, a2) in zip(cut, obs, obs_a):
            for i, l in enumerate(ops):
                res.evaluations += 1
                if a1[i] != a2[i]:
                    res.violation("assert-build:%s" % l.split()[0], "history %s step %d (%s): the build with assertions answers %s"
                                  % (name, i, l, a2[i][:120]), {"name": name, "ops": ops[:i + 1]}, expected=a1[i], observed=a2[i])
                    break
        res.count("histories-also-run-with-assertions", len(cut))
    for (name, ops), (ho, ao), (he, ae) in zip(hist, obs, exp):
        ok, trig = simulate(ops)
        if not ok:
            res.count("invalid-history-skipped")
            continue
        res.traces_validated += 1
        res.count("history-length:%02d-%02d" % (len(ops) // 10 * 10, len(ops) // 10 * 10 + 9))
        v = judge(name, ops, ao, ae, res, trig)
        if trig is not None:
            res.count("histories-with-recorded-trigger")
        if v is None:
            continue
        case_ops = ops[:v["step"] + 1]
        if shrink and shrunk.get(v["kind"], 0) < 1 and sum(shrunk.values()) < 6:
            shrunk[v["kind"]] = shrunk.get(v["kind"], 0) + 1
            case_ops, v = shrink_case(drv, orc, name, case_ops, v)
        res.violation(v["kind"], v["what"], {"name": name, "ops": case_ops}, expected=v["expected"], observed=v["observed"],
                      **({"no_input": True} if v.get("no_input") else {}))


def shrink_case(drv, orc, name, ops, v):
    """greedy removal of operations while the history stays valid and a violation of the same kind remains"""
    kind = v["kind"]
    changed = True
    rounds = 0
    while changed and rounds < 4:
        changed = False
        rounds += 1
        i = len(ops) - 2
        while i >= 0:
            cand = ops[:i] + ops[i + 1:]
            ok, trig = simulate(cand)
            if ok:
                obs, exp = run_histories(drv, orc, [(name, cand)])
                r = core.Result()
                v2 = judge(name, cand, obs[0][1], exp[0][1], r, trig)
                if v2 is not None and v2["kind"] == kind:
                    ops = cand[:v2["step"] + 1]
                    v = v2
                    changed = True
                    i = min(i, len(ops) - 1)
            i -= 1
    return ops, v


def all_valid_ops(s):
    """every operation line admissible in the abstract state s (used by the exhaustive stream)"""
    V = s.verts()
    out = []
    for x in V:
        out.append(("rv", [x]))
        out.append(("rs", [x]))
    for x, y in itertools.combinations(V, 2):
        if frozenset((x, y)) in s.K:
            out += [("re", [x, y]), ("rs", [x, y]), ("ce", [x, y]), ("ce", [y, x])]
        else:
            out += [("ae", [x, y]), ("aw", [y, x]), ("ci", [x, y]), ("ci", [y, x])]
    for r in range(3, len(V) + 1):
        for c in itertools.combinations(V, r):
            f = frozenset(c)
            if f in s.K:
                out.append(("rs", list(c)))
                if s.valid("ab", list(c)):
                    out.append(("ab", list(c)))
            else:
                out.append(("as", list(c)))
    if s.n < MAXSLOTS:
        out.append(("av", []))
    return [(op, a) for (op, a) in out if s.valid(op, a)]


def exhaustive_stream(thorough):
    """all sequences of two admissible operations (three on the smallest bases in the thorough tier) after each base complex"""
    def complete(n, fill="aw"):
        return ["av"] * n + ["%s %d %d" % (fill, x, y) for x in range(n) for y in range(x + 1, n)]
    bases = [
        ("full4", complete(4)),
        ("hollow4", complete(4) + ["ab 0 1 2 3"]),
        ("cycle4", ["av"] * 4 + ["ae 0 1", "ae 1 2", "ae 2 3", "ae 0 3"]),
        ("triangles-sharing-edge", ["av"] * 4 + ["aw 0 1", "aw 0 2", "aw 1 2", "aw 0 3", "aw 1 3"]),
        ("hollow-triangle-pendant", ["av"] * 4 + ["ae 0 1", "ae 0 2", "ae 1 2", "ae 2 3"]),
        ("k4-two-blockers", complete(4) + ["ab 0 1 2", "ab 0 1 3"]),
        ("hollow5", complete(5) + ["ab 0 1 2 3 4"]),
        ("k5-mixed", complete(5) + ["ab 0 1 2", "ab 1 2 3 4"]),
    ]
    if thorough:
        bases += [("octahedron", ["av"] * 6 + ["aw %d %d" % (x, y) for x in range(6) for y in range(x + 1, 6)
                                               if (x, y) not in ((0, 3), (1, 4), (2, 5))]),
                  ("k5-three-blockers", complete(5) + ["ab 0 1 2", "ab 0 3 4", "ab 1 2 3 4"])]
    out = []
    for name, base in bases:
        s0 = Spec()
        for l in base:
            op, a = parse(l)
            s0.apply(op, a)
        depth = 3 if (thorough and s0.n <= 4) else 2

        def rec(s, ops, d):
            for (op, a) in all_valid_ops(s):
                l = line(op, a)
                if s.trigger(op, a) or d == 1:
                    out.append(("exh-%s-%d" % (name, len(out)), base + ops + [l]))
                    continue
                s2 = s.copy()
                s2.apply(op, a)
                rec(s2, ops + [l], d - 1)
        rec(s0, [], depth)
    return out


def check(ctx, replay=None):
    import hashlib
    res = core.Result()
    if not getattr(ctx, "skip_proof", False):
        ctx.prove(["Extract_C17.vo"])
    drv = ctx.build_harness("c17_drv.cpp", flags=["-DNDEBUG"])
    drv_a = ctx.build_harness("c17_drv.cpp", tag="assert", flags=[])
    orc = ctx.build_oracle("c17")
    rng = ctx.rng
    distinct = set()
    samples = []

    def run_chunk(hist):
        evaluate(ctx, drv, orc, hist, res, drv_assert=drv_a)
        for (_, ops) in hist:
            if len(ops) > 1:
                distinct.add(hashlib.md5("|".join(ops).encode()).hexdigest()[:16])
        for i in sorted(rng.sample(range(len(hist)), min(2, len(hist)))):
            samples.append({"name": hist[i][0], "ops": hist[i][1]})

    if replay:
        hist = [(replay["case"].get("name", "replay"), list(replay["case"]["ops"]))]
        evaluate(ctx, drv, orc, hist, res, shrink=False, drv_assert=drv_a)
        distinct.add("replay")
        samples.append({"name": hist[0][0], "ops": hist[0][1]})
    else:
        thorough = ctx.tier == "thorough"
        hist = load_corpus() + boundary_stream()
        for (name, ops) in hist:
            if not simulate(ops)[0]:
                raise core.CheckError("hand-made history %s violates a precondition of the operations (machinery error)" % name)
        res.count("corpus+boundary-histories", len(hist))
        run_chunk(hist)
        ex = exhaustive_stream(thorough)
        res.count("exhaustive-stream-histories", len(ex))
        for k in range(0, len(ex), 20000):
            run_chunk(ex[k:k + 20000])
        n_main = 150000 if thorough else 12000
        n_trig = 6000 if thorough else 600
        CH = 16000
        done = 0
        while done < n_main + n_trig:
            hist = []
            for k in range(done, min(done + CH, n_main + n_trig)):
                if k < n_main:
                    style = rng.choices(["plain", "skeleton", "mk"], [5, 4, 1])[0]
                    ops = random_history(rng, rng.choice([8, 12, 16, 20, 25, 30]), style, allow_trigger=False)
                    hist.append(("rand-%s-%d" % (style, k), ops))
                    res.count("style:" + style)
                else:
                    ops = random_history(rng, rng.choice([12, 20, 30]), rng.choice(["plain", "skeleton", "hollow", "hollow"]),
                                         allow_trigger=True)
                    hist.append(("trig-%d" % (k - n_main), ops))
                    res.count("style:trigger-allowed")
            done += len(hist)
            run_chunk(hist)
            ctx.log("%d histories done" % done)
    res.distinct = distinct
    res.rule = ("one case = one history (sequence of operation lines on a fresh complex, <= 30 operations after the set-up, <= %d vertex "
                "slots); distinct = distinct operation sequences with at least two operations; after EVERY operation the whole "
                "observable state (num_vertices/edges/blockers, vertices, edges, blockers, contains() on all subsets of the slots, "
                "num_simplices, complex_simplex_range, num_connected_components, link_condition of every edge) is compared with the "
                "extracted transcription and with the extracted abstract complex; 'lk' lines observe link(simplex) the same way" % MAXSLOTS)
    res.samples = samples[:8]
    res.extra["max_slots"] = MAXSLOTS
    res.notes.append("exhaustive sub-domain: every sequence of two admissible operations (three on the 4-vertex bases in the thorough "
                     "tier) after each of the base complexes of exhaustive_stream()")
    return core.finish(ctx, None, res, TRUSTED, ASSUMPTIONS, LEVEL,
                       "cd /verif/coq && make -f Makefile.coq Properties_C17.vo  (coqc 8.16.1; Print Assumptions after every theorem)",
                       correspondence_name=CORRESPONDENCE)
