"""C18 - persistence landscapes equal their definition and form a normed vector space."""
import os, re
from fractions import Fraction
from vlib import core

LEVEL = "proof"
MANIFEST = dict(
    cat="proof",
    tech="Coq proofs over Q: the transcribed landscape construction and evaluation refine the definition (k-th largest tent value); "
         "normed-vector-space laws of the exact functionals; differential correspondence of the C++ with the extracted models on dyadic diagrams",
    text="Coq theorems, unbounded in the diagram, the level and the evaluation point.  C18_landscape_equals_definition: for every diagram "
         "(birth <= death, coordinates inside the sentinels, births not closer than the 5e-6 tolerance unless equal) the transcription of "
         "construct_persistence_landscape_from_barcode (sort, characteristic-point sweep with all tie branches, std::unique) evaluated by the "
         "transcription of compute_value_at_a_given_point (bisection) yields lambda_k(t) for all k, t.  C18_landscape_sum / _difference / _scale / _average / _abs_difference: "
         "the transcribed operator+, operator- (merge of different breakpoint lists), operator*(double), compute_average and abs(first-second) on constructed landscapes, read back by the "
         "bisection, are the pointwise operations on lambda_k.  lambda_k is non-negative, antitone in k, permutation invariant; a PL function is "
         "determined by its values at its breakpoints; the transcribed abs() is pointwise; sup, L1 and L2 functionals: symmetric, zero on equal arguments, "
         "triangle inequality (sup, L1, L2 via Cauchy-Schwarz); inner product symmetric and bilinear; the unrepaired grid evaluation is refuted "
         "and the repaired one returns the stored value at every grid point.  The transcription is tied to the C++ by running both on identical "
         "inputs (random + exhaustive small lattices + AddressSanitizer variant): breakpoints, values at every breakpoint/midpoint/outside for all "
         "levels, operations, integrals, distances, inner products, grid form at and between grid points.",
    note="Trusted: Coq kernel, extraction + OCaml driver, the hand transcription (validated by the differential run), g++/libm pow. "
         "Not proved (kept as *_full definitions, compared per input): the algorithmic distances / inner product equal the spec "
         "integrals; grid construction = lambda at grid points.  The closed forms seg_abs/seg_sq/seg_prod are taken as the "
         "integrals (no real analysis in the development).  L2 distances (pow(.,1/2)) and inner products off the 3-divisible lattice are the only "
         "float comparisons (relative 2^-40 / absolute 1e-7).",
    ref="design/C18.md")
CORRESPONDENCE = "coq/C18_Model.v (extracted: ocaml/c18_oracle.ml) vs harness/c18_drv.cpp on identical input lines"
TRUSTED = [
    "Coq 8.16.1 kernel (coqc, full .vo build); vm_compute only inside Example sanity checks and the concrete refutation witness",
    "extraction (ExtrOcamlBasic only; Z/positive/Q stay inductive) + OCaml 4.13.1 + ocaml/prelude.ml, ocaml/c18_oracle.ml",
    "hand-written transcription coq/C18_Model.v of construct_persistence_landscape_from_barcode, compute_value_at_a_given_point, "
    "operation_on_pair_of_landscapes, abs, compute_integral_of_landscape, compute_distance_of_landscapes, "
    "compute_maximal_distance_non_symmetric, compute_inner_product, compute_average, set_up_values_of_landscapes and the grid evaluation; "
    "tied to the C++ by the differential run, not by translation",
    "harness/c18_drv.cpp (reads the breakpoints through the public operator<< at 17 digits), g++ 12.2, libm pow",
    "Python comparison (fractions.Fraction): exact equality of rationals, except L2 distances and inner products off the 3-lattice",
    "un-formalised mathematics: the closed forms seg_abs/seg_sq/seg_prod are the integrals over [0,1] of |u+t(v-u)|, (u+t(v-u))^2 and "
    "the product of two linear functions; sup |PL| is attained at a breakpoint",
]
ASSUMPTIONS = [
    "diagram coordinates are multiples of 1/4 in [0,64] (3/4 in [0,192] on the 3-lattice): all C++ double operations on them are exact",
    "a diagram is 'grid-aligned' when every endpoint is an even multiple of the grid step from grid_min inside the grid, so that every "
    "breakpoint of every lambda_k is a grid point; zero-length intervals are not given to the grid form",
    "intervals given to the grid constructor lie inside [grid_min, grid_max] (outside, the code indexes out of range)",
    "scalars are dyadic; averages are over 1, 2, 4 or 8 landscapes (1/n exact)",
]
DEN = 16          # every integer n in a line stands for n/16
U = 4             # diagram coordinates are multiples of U (= 1/4)
FAR = 1 << 24


# ------------------------------------------------------------------------------------------------ generators
def gen_diagram(rng, tier, lattice3=False, maxn=None, allow_degenerate=False, kind=None):
    """list of (b, d) in line units; returns (kind, diagram)"""
    unit = U * 3 if lattice3 else U
    top = 64 if lattice3 else 256
    maxn = maxn or (7 if tier == "quick" else 10)
    kind = kind or rng.choice(["random", "random", "small", "small", "repeated", "nested", "touching", "eqbirth", "eqdeath", "stairs", "tiny"])
    n = rng.randint(1, maxn)
    D = []

    def iv(lo=0, hi=top):
        b = rng.randint(lo, hi - 1)
        return (b, rng.randint(b + 1, hi))
    if kind == "random":
        D = [iv() for _ in range(n)]
    elif kind == "small":
        hi = rng.choice([4, 6, 8, 12])
        D = [iv(0, hi) for _ in range(n)]
    elif kind == "tiny":
        D = [iv(0, 3) for _ in range(rng.randint(1, 4))]
    elif kind == "repeated":
        base = [iv(0, rng.choice([8, 16, top])) for _ in range(rng.randint(1, 3))]
        D = [rng.choice(base) for _ in range(n)] + base
    elif kind == "nested":
        b, d = 0, 2 * n + rng.randint(2, 20)
        for _ in range(n):
            if d - b < 1:
                break
            D.append((b, d))
            b += rng.randint(0, 2)
            d -= rng.randint(0, 2)
            if d <= b:
                break
    elif kind == "touching":
        x = rng.randint(0, 8)
        for _ in range(n):
            y = x + rng.randint(1, 6)
            D.append((x, y))
            x = y if rng.random() < 0.8 else y - rng.randint(0, 2)
            x = max(x, 0)
    elif kind == "eqbirth":
        b = rng.randint(0, 6)
        D = [(b, b + rng.randint(1, 10)) for _ in range(n)] + [iv(0, 16) for _ in range(rng.randint(0, 2))]
    elif kind == "eqdeath":
        d = rng.randint(10, 20)
        D = [(d - rng.randint(1, 10), d) for _ in range(n)] + [iv(0, 20) for _ in range(rng.randint(0, 2))]
    elif kind == "stairs":
        s = rng.randint(1, 3)
        w = rng.randint(2, 8)
        D = [(i * s, i * s + w) for i in range(n)]
    D = [(b, d) for (b, d) in D if b < d][:maxn + 3]
    if allow_degenerate and rng.random() < 0.08:
        x = rng.randint(0, 12)
        D.append((x, x))
    rng.shuffle(D)
    return kind, [(b * unit, d * unit) for (b, d) in D]


def cands(D):
    s = set()
    for (b, d) in D:
        s.add(b)
        s.add(d)
    for (b, _) in D:
        for (_, d) in D:
            s.add((b + d) // 2)
    return s


def eval_points(Ds, extra=()):
    c = set()
    for D in Ds:
        c |= cands(D)
    c |= set(extra)
    c = sorted(c)
    pts = set(c)
    for a, b in zip(c, c[1:]):
        pts.add((a + b) // 2)
        pts.add(a + 1)
    if c:
        pts |= {c[0] - 1, c[0] - 8, c[-1] + 1, c[-1] + 8}
    pts |= {-FAR, FAR, -3, 0}
    return sorted(pts)


def dstr(D):
    return " ".join("%d:%d" % bd for bd in D) if D else "-"


SCALARS = ["2", "1/2", "-1", "4", "1/4", "3", "-2", "0", "3/2", "1"]
PROGS2 = ["L0 L1 add", "L0 L1 sub", "L0 L1 sub abs", "L1 L0 sub abs", "L0 L1 addeq", "L0 L1 subeq", "L0 L1 avg:2",
          "L0 L1 sub mul:2 abs", "L0 mul:1/2 L1 mul:1/2 add", "L0 L1 add L0 sub", "L0 L1 sub L1 add", "L0 L1 sub abs mul:-1 abs"]
PROGS1 = ["L0 mul:%s", "L0 lmul:%s", "L0 muleq:%s", "L0 L0 sub", "L0 L0 add", "L0 abs", "L0 avg:1", "L0 mul:%s abs", "L0 L0 sub abs"]
PROGS3 = ["L0 L1 add L2 sub", "L0 L1 sub L2 add abs", "L0 L1 add L2 add", "L0 L1 L2 L0 avg:4", "L0 L1 sub abs L2 sub", "L0 L1 L2 add sub abs"]
PROGS4 = ["L0 L1 L2 L3 avg:4", "L0 L1 add L2 L3 add sub abs", "L0 L1 L2 L3 L0 L1 L2 L3 avg:8"]
HPROGS = ["L0 L1 add", "L0 L1 sub", "L0 L1 sub abs", "L0 mul:2", "L0 mul:-1/2", "L0 L1 avg:2", "L0 avg:1", "L0 L1 L2 L0 avg:4",
          "L0 L1 add L2 sub", "L0 diveq:2", "L0 L1 sub abs L2 add"]


def generate(rng, tier, corpus_lines):
    lines = []   # (line, meta)
    for l in corpus_lines:
        lines.append((l, {"src": "corpus"}))
    # exhaustive small lattices: every multiset of intervals with endpoints in {0..m} (half-integers), every tie configuration
    import itertools
    m, kmax = (4, 4) if tier == "quick" else (5, 4)
    ivs = [(a * 8, b * 8) for a in range(m + 1) for b in range(a + 1, m + 1)]
    xpts = " ".join(map(str, range(-8, m * 8 + 9, 2)))
    for k in range(1, kmax + 1):
        for D in itertools.combinations_with_replacement(ivs, k):
            D = list(D)
            rng.shuffle(D)
            lines.append(("X %d | %s | 0 | %s" % (DEN, dstr(D), xpts), {"src": "X:exhaustive", "n": k}))
    if tier == "thorough":
        ivs4 = [(a * 8, b * 8) for a in range(5) for b in range(a + 1, 5)]
        for D in itertools.combinations_with_replacement(ivs4, 5):
            lines.append(("X %d | %s | 0 | %s" % (DEN, dstr(list(D)), xpts), {"src": "X:exhaustive", "n": 5}))
    # every ordered tuple of up to 3 aligned intervals on an 8-step grid, with and without a level bound
    givs = [(4 * i, 4 * j) for i in range(5) for j in range(i + 1, 5)]
    gpts = " ".join(map(str, grid_points(8, 2, 0)))
    for k in range(1, 4):
        tuples = itertools.product(givs, repeat=k) if tier == "thorough" else itertools.combinations_with_replacement(givs, k)
        for D in tuples:
            for nlev in ((0, 1, 2, 3) if tier == "thorough" else (0, 2)):
                if nlev > k:
                    continue
                lines.append(("G %d | %s | 0 16 8 %d | %s" % (DEN, dstr(list(D)), nlev, gpts), {"src": "G:exhaustive" + (":nlev" if nlev else ""), "n": k}))
    nX, nE, nT, nG, nH = (2000, 1800, 700, 1800, 600) if tier == "quick" else (36000, 27000, 9000, 27000, 9000)
    for _ in range(nX):
        kind, D = gen_diagram(rng, tier, allow_degenerate=True)
        if rng.random() < 0.02:
            D = []
        nlev = 0 if rng.random() < 0.75 else rng.randint(1, max(1, len(D)))
        lines.append(("X %d | %s | %d | %s" % (DEN, dstr(D), nlev, " ".join(map(str, eval_points([D])))), {"src": "X:" + kind, "n": len(D)}))
    for _ in range(nE):
        r = rng.random()
        nd = 1 if r < 0.2 else 2 if r < 0.65 else 3 if r < 0.9 else 4
        Ds = [gen_diagram(rng, tier, maxn=5 if tier == "quick" else 7)[1] for _ in range(nd)]
        prog = rng.choice({1: PROGS1, 2: PROGS2, 3: PROGS3, 4: PROGS4}[nd])
        if "%s" in prog:
            prog = prog % rng.choice(SCALARS)
        lines.append(("E %d | %s | %s | %s" % (DEN, " ; ".join(dstr(D) for D in Ds), prog, " ".join(map(str, eval_points(Ds)))),
                      {"src": "E:" + re.sub(r"[-0-9/]+", "", prog.replace("L", "")).strip(), "n": sum(map(len, Ds))}))
    for _ in range(nT):
        l3 = rng.random() < 0.6
        Ds = [gen_diagram(rng, tier, lattice3=l3, maxn=4 if tier == "quick" else 6)[1] for _ in range(3)]
        if rng.random() < 0.1:
            Ds[1] = list(Ds[0])
        lines.append(("T %d | %s" % (DEN, " ; ".join(dstr(D) for D in Ds)), {"src": "T:" + ("lattice3" if l3 else "dyadic"), "n": sum(map(len, Ds))}))
    for _ in range(nG):
        lines.append(gen_grid_line(rng, tier))
    for _ in range(nH):
        N = rng.choice([4, 8, 16, 12])
        step = rng.choice([2, 4, 8, 6])
        g0 = rng.choice([0, 0, 16, 5])
        nd = rng.choice([1, 2, 3])
        Ds = [aligned_diagram(rng, N, step, g0, 5) for _ in range(3)]
        progs = [p for p in HPROGS if ("L2" not in p or nd >= 3) and ("L1" not in p or nd >= 2)]
        prog = rng.choice(progs)
        lines.append(("H %d | %s | %d %d %d | %s | %s" % (DEN, " ; ".join(dstr(D) for D in Ds), g0, g0 + N * step, N, prog,
                                                         " ".join(map(str, grid_points(N, step, g0)))), {"src": "H:" + prog.split()[-1].split(":")[0], "n": 3}))
    return lines


def aligned_diagram(rng, N, step, g0, maxn):
    D = []
    for _ in range(rng.randint(1, maxn)):
        i = rng.randint(0, N // 2 - 1)
        j = rng.randint(i + 1, N // 2)
        D.append((g0 + 2 * step * i, g0 + 2 * step * j))
    if rng.random() < 0.3:
        D += [rng.choice(D)]
    return D


def grid_points(N, step, g0):
    pts = set()
    for j in range(N + 1):
        x = g0 + step * j
        pts.add(x)
        if j < N:
            pts.add(x + step // 2)
            if step % 4 == 0:
                pts.add(x + step // 4)
            pts.add(x + 1)
    pts |= {g0 - 1, g0 - step, g0 + N * step + 1, g0 + N * step + step, -FAR, FAR}
    return sorted(pts)


def gen_grid_line(rng, tier):
    aligned = rng.random() < 0.75
    if aligned:
        N = rng.choice([2, 4, 8, 16, 32, 10, 12, 6])
        step = rng.choice([2, 4, 8, 16, 6, 10])
        g0 = rng.choice([0, 0, 16, 5, -8])
        D = aligned_diagram(rng, N, step, g0, 6 if tier == "quick" else 9)
    else:
        N = rng.choice([4, 8, 16])
        step = rng.choice([4, 8, 16])
        g0 = rng.choice([0, 16])
        D = []
        for _ in range(rng.randint(1, 5)):
            b = rng.randint(0, N * step // 4 - 1)
            d = rng.randint(b + 1, N * step // 4)
            D.append((g0 + 4 * b, g0 + 4 * d))
    r = rng.random()
    nlev = 0 if r < 0.6 else rng.randint(1, max(1, len(D)))
    return ("G %d | %s | %d %d %d %d | %s" % (DEN, dstr(D), g0, g0 + N * step, N, nlev, " ".join(map(str, grid_points(N, step, g0)))),
            {"src": "G:" + ("aligned" if aligned else "unaligned") + (":nlev" if nlev else ""), "n": len(D)})


# ------------------------------------------------------------------------------------------------ comparison
def frac(s):
    return Fraction(s)


def dyadic(fr):
    d = fr.denominator
    return d & (d - 1) == 0


def split_sections(ans):
    return [x.strip() for x in ans.split(" # ")]


def compare_line(line, obs, exp, res, count=True):
    """returns list of (kind, what, expected, observed)"""
    out = []
    kind = line.split()[0]
    if exp.startswith(("MODELERR", "ORACLEFAIL", "BADLINE")):
        return [("model:%s" % kind, "the oracle could not evaluate the line: " + exp[:200], exp, obs)]
    md = None
    if " # MODELDIFF " in exp:
        exp, md = exp.split(" # MODELDIFF ", 1)
        out.append(("model:%s:algorithm-vs-specification" % kind,
                    "the transcribed algorithm disagrees with the specification: " + md[:300], md, None))
    if obs.startswith(("CRASH", "DIED", "EXC", "BAD")):
        return out + [("%s:crash" % kind, "implementation: %s" % obs[:80], exp[:300], obs)]
    if kind == "T":
        return out + compare_T(line, obs, exp, res, count)
    so, se = split_sections(obs), split_sections(exp)
    names = {"X": ["size", "structure", "value", "integral", "max", "vectorize", "vectorize-beyond-last-level", "find_max-beyond-last-level"], "E": ["size", "structure", "value"],
             "G": ["structure", "value", "vectorize"], "H": ["value"]}[kind]
    if len(so) != len(se) or len(so) != len(names):
        return out + [("%s:format" % kind, "answer has %d sections, expected %d" % (len(so), len(se)), exp[:300], obs[:300])]
    inexact = any(not dyadic(Fraction(m)) for m in re.findall(r"-?\d+/\d+", se[names.index("structure")])) if "structure" in names and kind == "E" else False
    fields = [x.strip() for x in line.split("|")]
    pts = fields[-1].split()
    tag = ""
    if kind == "G" and int(fields[2].split()[3]) > 0:
        tag = ":nlev"
    for name, o, e in zip(names, so, se):
        if count:
            res.evaluations += max(1, len(o.split()))
        if o == e:
            continue
        if inexact:
            if close_lists(o, e, Fraction(1, 10 ** 9)):
                if count:
                    res.count("float-compared:E-nondyadic-zero-crossing")
                continue
        if name == "value":
            lo, le = o.split(";"), e.split(";")
            done = False
            for k, (a, b) in enumerate(zip(lo, le)):
                for t, x, y in zip(pts, a.split(), b.split()):
                    if x != y:
                        where = ""
                        if kind in ("G", "H"):
                            g = fields[2].split()
                            g0, g1, N = int(g[0]), int(g[1]), int(g[2])
                            st = (g1 - g0) // N
                            where = ":at-grid-point" if (g0 <= int(t) <= g1 and (int(t) - g0) % st == 0) else ":between-grid-points"
                        out.append(("%s:value%s%s" % (kind, where, tag), "level %d at t=%s/%d: implementation %s, definition %s | %s" % (k, t, DEN, x, y, line[:160]), y, x))
                        done = True
                        break
                if done:
                    break
            if not done:
                out.append(("%s:value%s" % (kind, tag), "value sections differ in shape | " + line[:160], e[:300], o[:300]))
        else:
            out.append(("%s:%s%s" % (kind, name, tag), "%s: implementation %s, model %s | %s" % (name, o[:200], e[:200], line[:160]), e[:400], o[:400]))
    return out


def close_lists(o, e, tol):
    a = re.split(r"[ ;,]+", o.strip())
    b = re.split(r"[ ;,]+", e.strip())
    if len(a) != len(b):
        return False
    try:
        return all(abs(Fraction(x) - Fraction(y)) <= tol * max(1, abs(Fraction(y))) for x, y in zip(a, b))
    except (ValueError, ZeroDivisionError):
        return False


def compare_T(line, obs, exp, res, count):
    out = []
    try:
        o = dict(x.split("=") for x in obs.split())
        e = dict(x.split("=") for x in exp.split())
        ov = {k: Fraction(v) for k, v in o.items()}
        ev = {k: Fraction(v) for k, v in e.items()}
    except ValueError:
        return [("T:format", "unparsable answer", exp[:300], obs[:300])]
    coords = [int(x) for x in re.findall(r"\d+", line.split("|")[1])]
    lattice3 = all(c % (3 * U) == 0 for c in coords)
    REL = Fraction(1, 1 << 40)
    for k in ev:
        if count:
            res.evaluations += 1
        if k not in ov:
            out.append(("T:format", "missing " + k, None, None))
            continue
        x, y = ov[k], ev[k]
        if k.startswith(("d2", "n2")):
            # the only float comparison of distances: the C++ returns pow(integral, 1/2); compared after exact squaring
            if abs(x * x - y) > REL * max(y, Fraction(1, 1 << 20)):
                out.append(("T:L2-distance", "%s: implementation %s (squared %s), exact integral %s | %s" % (k, float(x), float(x * x), y, line[:160]), str(y), str(x)))
            elif count:
                res.count("float-compared:L2")
        elif k.startswith("ip"):
            if x == y:
                if count:
                    res.count("exact-compared:inner-product")
            elif (not lattice3) and abs(x - y) <= Fraction(1, 10 ** 7):
                if count:
                    res.count("float-compared:inner-product-off-3-lattice")
            else:
                out.append(("T:inner-product", "%s: implementation %s, exact integral %s | %s" % (k, o[k], y, line[:160]), str(y), o[k]))
        else:
            if x != y:
                nm = {"d1": "L1-distance", "ds": "sup-distance", "in": "integral", "n1": "L1-norm", "ns": "sup-norm"}[k[:2]]
                out.append(("T:" + nm, "%s: implementation %s, exact %s | %s" % (k, o[k], y, line[:160]), str(y), o[k]))
    # the laws, directly on the implementation's numbers
    if not out:
        tol = Fraction(1, 10 ** 9)
        laws = [("sym-L1", ov["d1AB"] == ov["d1BA"]), ("sym-sup", ov["dsAB"] == ov["dsBA"]),
                ("sym-L2", abs(ov["d2AB"] - ov["d2BA"]) <= tol), ("sym-inner", abs(ov["ipAB"] - ov["ipBA"]) <= (0 if lattice3 else tol)),
                ("zero-L1", ov["d1AA"] == 0), ("zero-sup", ov["dsAA"] == 0), ("zero-L2", ov["d2AA"] == 0),
                ("triangle-L1", ov["d1AB"] <= ov["d1AC"] + ov["d1BC"]), ("triangle-sup", ov["dsAB"] <= ov["dsAC"] + ov["dsBC"]),
                ("triangle-L2", ov["d2AB"] <= ov["d2AC"] + ov["d2BC"] + tol),
                ("additive-inner", abs(ov["ipSC"] - ov["ipAC"] - ov["ipBC"]) <= (0 if lattice3 else tol)),
                ("homogeneous-inner", abs(ov["ip2AB"] - 2 * ov["ipAB"]) <= (0 if lattice3 else tol))]
        for nm, ok in laws:
            if count:
                res.evaluations += 1
            if not ok:
                out.append(("T:law-" + nm, "law %s fails on the implementation's numbers | %s" % (nm, line[:200]), None, obs[:300]))
    return out


def run_lines(drv, orc, lines):
    groups = [("C 1", lines[i:i + 40]) for i in range(0, len(lines), 40)]
    obs = core.run_grouped_parallel(drv, groups, timeout=1200, max_restarts=6, cpu=90)      # a hang of the implementation is reported as DIED
    exp = core.run_grouped_parallel(orc, groups, timeout=600)
    o = [a for (_, ans) in obs for a in ans]
    e = [a for (_, ans) in exp for a in ans]
    return o, e


def shrink(drv, orc, line, kind0, res):
    """greedy: drop intervals, then cut the evaluation points to the failing one, while the same kind of mismatch stays"""
    def fails(l):
        o, e = run_lines(drv, orc, [l])
        return any(k == kind0 for (k, _, _, _) in compare_line(l, o[0], e[0], res, count=False))
    f = [x.strip() for x in line.split("|")]
    changed = True
    rounds = 0
    while changed and rounds < 6:
        changed = False
        rounds += 1
        ds = [d.split() for d in f[1].split(";")]
        for i in range(len(ds)):
            j = 0
            while j < len(ds[i]) and len(ds[i]) > 1:
                cand = [list(d) for d in ds]
                del cand[i][j]
                f2 = list(f)
                f2[1] = " ; ".join(" ".join(d) for d in cand)
                l2 = " | ".join(f2)
                if fails(l2):
                    ds = cand
                    f = f2
                    changed = True
                else:
                    j += 1
    if f[0].split()[0] != "T":
        pts = f[-1].split()
        for t in pts:
            f2 = list(f)
            f2[-1] = t
            l2 = " | ".join(f2)
            if fails(l2):
                f = f2
                break
    return " | ".join(f)


# ------------------------------------------------------------------------------------------------ grid inner products (U lines)
def gen_U(rng, tier):
    """three grid-aligned diagrams on one coarse grid (coarse, so that a single cell matters); levels often end at the same
    grid point in two of them (equal largest deaths, <p,p>)"""
    N = rng.choice([4, 8, 8, 16])
    step = rng.choice([2, 4, 8])
    g0 = rng.choice([0, 0, 16, -8])
    Ds = []
    for t in range(3):
        if t and rng.random() < 0.3:
            Ds.append(list(Ds[rng.randrange(t)]))       # the same diagram again
            continue
        D = aligned_diagram(rng, N, step, g0, 4 if tier == "quick" else 6)
        if t and Ds[0] and D and rng.random() < 0.5:    # share the largest death with the first diagram
            dmax = max(d for (_, d) in Ds[0])
            b = min(b for (b, _) in D)
            if b < dmax:
                D[0] = (b, dmax)
        Ds.append(D)
    return "U %d | %s | %d %d %d" % (DEN, " ; ".join(dstr(D) for D in Ds), g0, g0 + N * step, N)


def check_U(line, obs):
    """exact cell-wise integral of the product of the piecewise-linear interpolants of the stored grid values (first cell from
    grid_min - dx with value 0, as the class defines it), compared with compute_scalar_product; plus symmetry / bilinearity of the
    implementation's own numbers.  returns list of (kind, what, expected, observed)"""
    if obs.startswith(("CRASH", "DIED", "EXC", "BAD")):
        return [("U:crash", "implementation: %s | %s" % (obs[:80], line[:200]), None, obs[:200])]
    secs = [x.strip() for x in obs.split(" # ")]
    if len(secs) != 4:
        return [("U:format", "unparsable answer", None, obs[:200])]
    f = [x.strip() for x in line.split("|")]
    g = f[2].split()
    den = Fraction(int(f[0].split()[1]))
    gmin, gmax, N = Fraction(int(g[0])) / den, Fraction(int(g[1])) / den, int(g[2])
    vals = []
    for t in range(3):
        levels = [[Fraction(x) for x in lv.split()] for lv in secs[t].split(";")] if secs[t] else []
        vals.append(levels)
    npoints = max([len(lv) for t in range(3) for lv in vals[t]] or [N + 1])      # the class stores N + 1 grid points
    dx = (gmax - gmin) / (npoints - 1)
    got = {}
    for w in secs[3].split():
        k, v = w.split("=")
        got[k] = Fraction(v) if re.match(r"^-?\d+(/\d+)?$", v) else Fraction(float.fromhex(v))

    def ip(a, b):
        tot = Fraction(0)
        for k in range(min(len(a), len(b))):
            pa, pb = Fraction(0), Fraction(0)
            for i in range(len(a[k])):
                ca, cb = a[k][i], (b[k][i] if i < len(b[k]) else Fraction(0))
                tot += dx * (pa * pb + ca * cb) / 3 + dx * (pa * cb + ca * pb) / 6
                pa, pb = ca, cb
        return tot
    A, B, C = vals
    exp = {"ipAB": ip(A, B), "ipBA": ip(B, A), "ipAA": ip(A, A), "ipAC": ip(A, C), "ipBC": ip(B, C), "ipCC": ip(C, C)}
    out = []
    tol = Fraction(1, 10 ** 7)
    for k, e in exp.items():
        if abs(got[k] - e) > tol * max(1, abs(e)):
            out.append(("U:grid-inner-product", "compute_scalar_product on grids: %s = %s, the exact integral of the product of the stored "
                        "piecewise-linear functions is %s | %s" % (k, float(got[k]), float(e), line[:200]), str(e), str(got[k])))
            break
    if "ipVC" in got:
        avg = [("average:inner-product-left", abs(got["ipVC"] - (got["ipAC"] + got["ipBC"]) / 2)),
               ("average:inner-product-right", abs(got["ipCV"] - (got["ipAC"] + got["ipBC"]) / 2)),
               ("average:integral", abs(got["intV"] - (got["intA"] + got["intB"]) / 2)),
               ("average:size", abs(got["szV"] - max(got["szA"], got["szB"])))]
        for nm, err in avg:
            if err > tol * max(1, abs(got["ipAC"]), abs(got["ipBC"]), abs(got["intA"]), abs(got["intB"])):
                out.append(("U:grid-" + nm, "the average of two grid landscapes (compute_average) does not behave like (A + B) / 2: %s is off by %s | %s"
                            % (nm, float(err), line[:200]), "0", str(float(err))))
                break
    laws = [("symmetric", abs(got["ipAB"] - got["ipBA"])), ("additive", abs(got["ipSC"] - got["ipAC"] - got["ipBC"])),
            ("additive-right", abs(got["ipCS"] - got["ipAC"] - got["ipBC"])), ("homogeneous", abs(got["ip2AB"] - 2 * got["ipAB"]))]
    for nm, err in laws:
        if err > tol * max(1, abs(got["ipAB"]), abs(got["ipAC"]), abs(got["ipBC"])):
            out.append(("U:grid-inner-product-not-" + nm, "inner product of grid landscapes is not %s on the implementation's own numbers (error %s) | %s"
                        % (nm, float(err), line[:200]), "0", str(float(err))))
            break
    return out


def check(ctx, replay=None):
    res = core.Result()
    if not getattr(ctx, "skip_proof", False):
        ctx.prove(["Extract_C18.vo"])
    drv = ctx.build_harness("c18_drv.cpp", flags=[])
    orc = ctx.build_oracle("c18")
    if replay:
        lines = [(replay["case"]["line"], {"src": "replay"})]
    else:
        corpus = []
        cdir = os.path.join(core.ROOT, "corpus", "C18")
        if os.path.isdir(cdir):
            for fn in sorted(os.listdir(cdir)):
                for l in open(os.path.join(cdir, fn)):
                    l = l.strip()
                    if l and not l.startswith("#"):
                        corpus.append(l)
        lines = generate(ctx.rng, ctx.tier, corpus)
    # grid inner products: self-checking lines (exact integral from the stored values; symmetry and bilinearity)
    ulines = [l for (l, _) in lines if l.startswith("U ")]
    lines = [(l, m) for (l, m) in lines if not l.startswith("U ")]
    if not replay:
        ulines += [gen_U(ctx.rng, ctx.tier) for _ in range(150 if ctx.tier == "quick" else 1500)]
    if ulines:
        groups = [("C 1", ulines[i:i + 40]) for i in range(0, len(ulines), 40)]
        uo = [a for (_, ans) in core.run_grouped_parallel(drv, groups, timeout=1200, max_restarts=6, cpu=90) for a in ans]
        useen = set()
        for l, a in zip(ulines, uo):
            res.evaluations += 10
            res.count("line:U:grid-inner-products")
            res.traces_validated += 1
            for (kind, what, ex, ob) in check_U(l, a):
                if kind not in useen:
                    useen.add(kind)
                    res.violation(kind, what, {"line": l}, expected=ex, observed=ob)
        res.extra["grid_inner_product_lines"] = len(ulines)
    if replay and not lines:
        res.distinct = set(ulines)
        res.rule = "replay of one stored case"
        return core.finish(ctx, None, res, TRUSTED, ASSUMPTIONS, LEVEL, "cd /verif/coq && make -f Makefile.coq Properties_C18.vo",
                           correspondence_name=CORRESPONDENCE)
    ctx.log("%d input lines" % len(lines))
    o, e = run_lines(drv, orc, [l for (l, _) in lines])
    # the same lines (a prefix) under AddressSanitizer/UBSan: reads past the end that happen not to change a value
    if not replay:
        try:
            asan = ctx.build_harness("c18_drv.cpp", tag="asan", flags=["-fsanitize=address,undefined", "-fno-sanitize-recover=all", "-fno-omit-frame-pointer"])
        except core.CheckError as ex:
            asan = None
            res.notes.append("sanitizer build unavailable: " + str(ex)[:200])
        if asan:
            sub = [l for (l, _) in lines[:(1500 if ctx.tier == "quick" else 12000)]]
            groups = [("C 1", sub[i:i + 40]) for i in range(0, len(sub), 40)]
            so = [a for (_, ans) in core.run_grouped_parallel(asan, groups, timeout=300, max_restarts=6, env={"ASAN_OPTIONS": "detect_leaks=0:abort_on_error=1"}) for a in ans]
            for l, a, b in zip(sub, so, o):
                res.evaluations += 1
                if a != b:
                    res.violation("sanitizer", "the sanitizer build answers differently (memory error or undefined behaviour): %s vs %s | %s" % (a[:80], b[:80], l[:160]),
                                  {"line": l}, expected=b[:300], observed=a[:300])
                    break
            res.count("sanitizer-lines", len(sub))
    seen_kinds = {}
    for (line, meta), a, b in zip(lines, o, e):
        res.count("line:" + meta["src"])
        res.count("intervals:%s" % ("0" if meta.get("n", 1) == 0 else "1-3" if meta.get("n", 1) <= 3 else "4-8" if meta.get("n", 1) <= 8 else "9+"))
        res.traces_validated += 1
        viol = compare_line(line, a, b, res)
        # X/E lines whose only difference is the breakpoint representation (same function values everywhere compared):
        # the specification holds on the implementation's output, only the algorithm model no longer matches
        rep_only = bool(viol) and all(k.split(":")[0] in ("X", "E") and k.split(":")[1] in ("structure", "vectorize", "size") for (k, _, _, _) in viol)
        for (kind, what, ex, ob) in viol:
            if kind not in seen_kinds and not replay:
                seen_kinds[kind] = 1
                small = shrink(drv, orc, line, kind, res)
                if small != line:
                    oo, ee = run_lines(drv, orc, [small])
                    v2 = compare_line(small, oo[0], ee[0], res, count=False)
                    rep2 = bool(v2) and all(k.split(":")[0] in ("X", "E") and k.split(":")[1] in ("structure", "vectorize", "size") for (k, _, _, _) in v2)
                    for (k2, w2, e2, o2) in v2:
                        if k2 == kind:
                            res.violation(kind, w2, {"line": small}, expected=e2, observed=o2, no_input=rep2)
                            break
                    continue
            res.violation(kind, what, {"line": line}, expected=ex, observed=ob, no_input=rep_only)
    res.distinct = {l for (l, _) in lines} | set(ulines)
    res.rule = ("one case = one input line (kind X/E/T/G/H, diagram(s), level bound or grid or program, evaluation points); distinct = distinct "
                "lines; every line builds at least one landscape and compares all levels 0..n at every candidate breakpoint "
                "(b, d, (b_i+d_j)/2), every midpoint between neighbours, neighbours +1/16 and points far outside; evaluations = number of "
                "compared numbers")
    import random as _r
    idx = sorted(_r.Random(ctx.seed).sample(range(len(lines)), min(8, len(lines))))
    res.samples = [{"line": lines[i][0][:400]} for i in idx]
    res.notes.append("exhaustive sub-domains this run: every multiset of up to %s intervals with endpoints in {0,1/2,..,%s/2} (exact form, all levels, "
                     "all quarter points); every %s of up to 3 grid-aligned intervals on the grid [0,1]/8 with level bounds %s"
                     % (("4", "4", "multiset", "{none,2}") if ctx.tier == "quick" else ("4 (5 on {0..2})", "5", "ordered tuple", "{none,1,2,3}")))
    res.notes.append("float comparisons: L2 distances after exact squaring (relative 2^-40); inner products off the 3-divisible lattice "
                     "(absolute 1e-7; the C++ divides by 3); E lines whose abs() creates a non-dyadic zero crossing (relative 1e-9); everything else exact")
    return core.finish(ctx, None, res, TRUSTED, ASSUMPTIONS, LEVEL,
                       "cd /verif/coq && make -f Makefile.coq Properties_C18.vo  (coqc 8.16.1; Print Assumptions after every theorem)",
                       correspondence_name=CORRESPONDENCE)
