"""C19 - the sparse Rips filtration: subcomplex of Rips, never earlier, valid filtration (proved); interleaving bound (measured)."""
import itertools, json, os, zlib
from fractions import Fraction
from math import comb, isqrt
from vlib import core

LEVEL = "other"
EXPLANATION = (
    "Partial proof + differential exploration.  Proved in Coq for every symmetric non-negative distance function, every farthest-point "
    "order, every epsilon > 0 (also >= 1), every mini/maxi and dimension: each kept edge has value >= its length, every simplex of the "
    "sparse complex is a Rips simplex at its own value (subcomplex, never earlier), the output is closed under faces with monotone "
    "values (for the model that follows the simplex-tree traversal and for the level-wise one), the insertion radii are non-increasing.  The decisive clause of the property - the persistence diagrams of the sparse and "
    "of the Rips filtration are within multiplicative bottleneck distance 1/(1-epsilon) - is a theorem of the literature (Sheehy; "
    "Cavanna, Jahanseir, Sheehy) that is NOT formalised; it is kept as Definition C19_interleaving_full and MEASURED on every generated "
    "metric small enough for the certified reduction: barcodes of the C++ output and of the Rips complex are computed by the proved "
    "oracle certified_lows (Z_2 and Z_3) and a matching within the bound is searched and validated by an extracted checker.")
MANIFEST = dict(
    cat="other",
    tech="Coq proofs of the sub-complex / never-earlier / valid-filtration / monotone-radii clauses for the algorithm model of "
         "Sparse_rips_complex + differential run of the C++ against the extracted model (whole complex with values, exact rationals) + "
         "measurement of the interleaving bound with the certified persistence oracle and a checked bottleneck matching",
    text="Unbounded Coq theorems about a Q-model of compute_sparse_graph (all branches of the edge rule, both cut-offs, mini/maxi), of the "
         "vertex-death blocker and of the two expansions (modelled twice: following the traversal of the simplex tree, and level by "
         "level): alpha >= d for every kept edge when epsilon > 0; every simplex of the sparse complex has all pairwise distances <= its "
         "value (it is a Rips simplex and never appears earlier); the result is closed under faces and monotone for every epsilon > 0 "
         "including epsilon >= 1 (there via completeness of the flag expansion along the tree) and finite mini/maxi; insertion radii "
         "of any farthest-point order are non-increasing and such orders exist from every start.  The C++ is run through both public constructors (distance matrix; points with "
         "Euclidean / L1 / L-infinity distance) on integer metrics with n <= 12, epsilon in {1/10,1/4,1/2,9/10,1,2}, with and without "
         "mini/maxi, dimensions 0..5, several random starting points per input, and its complete output is compared with the model "
         "(exactly for epsilon a power of two, to 2^-44 relative for 1/10 and 9/10 where the double arithmetic rounds) and checked "
         "against the specification.  The interleaving bound itself is measured, not proved.",
    note="Trusted: Coq kernel, extraction + OCaml driver (the matching SEARCH is untrusted, its result is validated by the extracted "
         "check_matching), hand-written model (validated by the differential run), g++, harness.  Not proved: the interleaving theorem; "
         "pivot pairing = interval decomposition; the heap-based farthest-point routine is not modelled: the order is taken from the "
         "implementation (random start) and CHECKED to be a farthest-point order; memory layout of the simplex tree is abstracted to "
         "the set of its simplices.",
    ref="design/C19.md")
CORRESPONDENCE = ("coq/C19_Model.v (extracted: ocaml/c19_oracle.ml) vs harness/c19_drv.cpp: every simplex of create_complex with its "
                  "filtration value, for the farthest-point order the implementation actually used; specification evaluated on the C++ output")
TRUSTED = [
    "Coq 8.16.1 kernel (coqc, full .vo build)",
    "extraction (ExtrOcamlBasic only) + OCaml 4.13.1 + ocaml/prelude.ml, ocaml/c19_oracle.ml (parsing, printing, Kuhn matching search "
    "whose result is re-checked by the extracted check_matching)",
    "hand-written Q-model coq/C19_Model.v of Sparse_rips_complex.h (edge rule, cut-offs, blocker) and of Simplex_tree::expansion / "
    "expansion_with_blockers (traversal-following and level-wise); tied to the C++ by the differential run, not by translation",
    "harness/c19_drv.cpp (the farthest-point order is read off the implementation's own calls of the user-supplied distance), g++ 12.2",
    "literature, not formalised: sparse-Rips interleaving theorem (measured only); pivot pairing = persistence barcode",
    "IEEE double arithmetic is exact on the inputs with epsilon a power of two; for epsilon = 1/10, 9/10 values are compared to 2^-44",
]
ASSUMPTIONS = [
    "distances are symmetric, non-negative integers with zero diagonal satisfying the triangle inequality (generated so); the proved "
    "clauses need only symmetry and non-negativity",
    "epsilon > 0 (the constructor documents it; GUDHI_CHECK in debug mode)",
    "interleaving is measured only for epsilon < 1, default mini/maxi, dim_max >= 1, Rips complex of at most %d simplices, in "
    "dimensions < dim_max, with coefficients Z_2 and Z_3" % 180,
    "the implementation picks a random starting point: every input is run several times; a replay re-runs the input until the "
    "violation shows again (up to 40 runs)",
]

EPS = [(1, 10), (1, 4), (1, 2), (9, 10), (1, 1), (2, 1)]
MAX_RIPS = 180
MAX_RIPS_BIG = 300      # a few larger inputs in the thorough tier (about a minute each in the certified reduction)
RUNS = 2


def is_pow2(x):
    return x > 0 and (x & (x - 1)) == 0


def eps_exact(e):
    return (e[0] == 1 and is_pow2(e[1])) or e[1] == 1


# ------------------------------------------------------------------------------------------------ metrics
def closure(m):
    n = len(m)
    for k in range(n):
        for i in range(n):
            for j in range(n):
                if m[i][k] + m[k][j] < m[i][j]:
                    m[i][j] = m[i][k] + m[k][j]
    return m


def matrix_of_points(pts, mode):
    n = len(pts)
    m = [[0] * n for _ in range(n)]
    for i in range(n):
        for j in range(n):
            df = [abs(a - b) for a, b in zip(pts[i], pts[j])]
            if mode == "L":
                m[i][j] = sum(df)
            elif mode == "X":
                m[i][j] = max(df) if df else 0
            else:
                s = sum(x * x for x in df)
                r = isqrt(s)
                if r * r != s:
                    return None
                m[i][j] = r
    return m


def gen_points(rng, n, k):
    style = rng.choice(["grid", "grid", "clusters", "clusters", "geometric", "multi", "perimeter", "perimeter", "nested-loops", "nested-loops"])
    if style == "nested-loops" and k >= 2:
        # rectangle perimeters at several scales and offsets: loops of very different sizes (sparse and Rips diagrams differ)
        pts = []
        for _ in range(n):
            sc = rng.choice([1, 1, 4, 16, 64])
            a = rng.choice([2, 3, 4, 6])
            t = rng.randrange(4 * a)
            p = [t, 0] if t < a else [a, t - a] if t < 2 * a else [3 * a - t, a] if t < 3 * a else [0, 4 * a - t]
            off = rng.choice([0, 0, 100, 300])
            pts.append([sc * p[0] + off, sc * p[1]] + [0] * (k - 2))
        return pts, style
    if style == "nested-loops":
        style = "grid"
    if style == "perimeter" and k >= 2:
        # points on the boundary of an axis-parallel rectangle (a loop), sometimes with jitter
        a, b = rng.choice([(4, 4), (8, 8), (8, 4), (16, 16), (12, 6), (32, 32)])
        pts = []
        for _ in range(n):
            t = rng.randrange(2 * (a + b))
            if t < a:
                p = [t, 0]
            elif t < a + b:
                p = [a, t - a]
            elif t < 2 * a + b:
                p = [2 * a + b - t, b]
            else:
                p = [0, 2 * (a + b) - t]
            pts.append(p + [0] * (k - 2))
        return pts, style
    if style == "perimeter":
        style = "grid"
    if style == "grid":
        R = rng.choice([3, 6, 16, 64, 256])
        return [[rng.randint(0, R) for _ in range(k)] for _ in range(n)], style
    if style == "clusters":
        nc = rng.randint(2, 3)
        S = rng.choice([20, 60, 200, 1000])
        cs = [[rng.randint(0, S) for _ in range(k)] for _ in range(nc)]
        r = rng.choice([1, 2, 4])
        return [[c + rng.randint(-r, r) for c in rng.choice(cs)] for _ in range(n)], style
    if style == "geometric":
        b = rng.choice([2, 2, 3, 4])
        xs = [0] + [b ** i for i in range(n - 1)]
        ax = rng.randrange(k)
        pts = []
        for x in xs:
            p = [0] * k
            p[ax] = x
            if rng.random() < 0.3 and k > 1:
                p[(ax + 1) % k] = rng.randint(0, 2)
            pts.append(p)
        rng.shuffle(pts)
        return pts, style
    # multi-scale: nested perturbations
    pts = []
    for _ in range(n):
        p = [0] * k
        for s in (256, 32, 4, 1):
            if rng.random() < 0.7:
                for c in range(k):
                    p[c] += s * rng.randint(0, 3)
        pts.append(p)
    return pts, style


def gen_integral_euclid(rng, n):
    """integer points of the plane with pairwise integer distances: collinear runs and 3-4-5 rectangles, scaled"""
    s = rng.choice([1, 1, 2, 5])
    base = rng.choice(["line", "rect", "rectline"])
    if base == "line":
        dx, dy = rng.choice([(1, 0), (0, 1), (3, 4), (4, 3), (5, 12)])
        ts = rng.sample(range(0, 40), n)
        return [[s * dx * t, s * dy * t] for t in ts]
    a, b = rng.choice([(3, 4), (6, 8), (5, 12), (8, 15), (9, 12)])
    pts = [[0, 0], [a * s, 0], [0, b * s], [a * s, b * s]]
    if base == "rectline":
        pts += [[a * s * t, 0] for t in range(2, 2 + max(0, n - 4))]
    rng.shuffle(pts)
    return pts[:max(2, min(n, len(pts)))]


def gen_metric_matrix(rng, n):
    style = rng.choice(["closure", "closure-heavy", "ultra", "path", "cycle", "cycle"])
    if style == "cycle":
        # shortest-path metric of a weighted cycle (long-lived 1-dimensional class), sometimes with a few pendant points
        k = n if rng.random() < 0.6 or n < 5 else n - rng.randint(1, 2)
        w = [rng.choice([1, 1, 2, 2, 3, 4, 8]) for _ in range(k)]
        big = sum(w) + 10
        m = [[0 if i == j else big * 4 for j in range(n)] for i in range(n)]
        for i in range(k):
            j = (i + 1) % k
            if i != j:
                m[i][j] = m[j][i] = min(m[i][j], w[i])
        for i in range(k, n):
            a = rng.randrange(k)
            m[i][a] = m[a][i] = rng.choice([1, 2, 5])
        perm = list(range(n))
        rng.shuffle(perm)
        m = closure(m)
        return [[m[perm[i]][perm[j]] for j in range(n)] for i in range(n)], style
    if style == "closure":
        W = rng.choice([4, 10, 50])
        m = [[0] * n for _ in range(n)]
        for i in range(n):
            for j in range(i):
                m[i][j] = m[j][i] = rng.randint(1, W)
    elif style == "closure-heavy":
        m = [[0] * n for _ in range(n)]
        for i in range(n):
            for j in range(i):
                m[i][j] = m[j][i] = rng.choice([1, 2, 3, 8, 20, 64, 200, 1000])
    elif style == "ultra":
        # ultrametric from a random hierarchy: distance = 2^level of the lowest common split
        lab = [[rng.randint(0, 1) for _ in range(5)] for _ in range(n)]
        m = [[0] * n for _ in range(n)]
        for i in range(n):
            for j in range(n):
                if i != j:
                    lvl = 0
                    for t in range(5):
                        if lab[i][t] != lab[j][t]:
                            lvl = 5 - t
                            break
                    m[i][j] = 4 ** lvl if lvl else 1
    else:
        w = [rng.choice([1, 1, 2, 4, 7, 16, 100]) for _ in range(n - 1)]
        pos = [0]
        for x in w:
            pos.append(pos[-1] + x)
        rng.shuffle(pos)
        m = [[abs(a - b) for b in pos] for a in pos]
    m = closure(m)
    if rng.random() < 0.3 and n >= 4:
        # two groups pulled apart by a large factor: a multi-scale metric
        kf = rng.choice([4, 16, 50])
        grp = set(rng.sample(range(n), n // 2))
        for a in range(n):
            for b in range(n):
                if (a in grp) != (b in grp):
                    m[a][b] *= kf
        m = closure(m)
        style += "+stretched"
    return m, style


def rips_size(n, dim):
    return sum(comb(n, i) for i in range(1, dim + 2))


def pick_bounds(rng, m, e):
    n = len(m)
    ds = sorted({m[i][j] for i in range(n) for j in range(i)}) or [1]
    mini = maxi = None
    r = rng.random()
    if r < 0.22:
        x = rng.choice(ds)
        mini = rng.choice([Fraction(x), Fraction(x), Fraction(2 * x + 1, 2), Fraction(x, 2)])
    r = rng.random()
    if r < 0.25:
        x = rng.choice(ds)
        maxi = rng.choice([Fraction(x), Fraction(2 * x), Fraction(2 * x - 1, 2), Fraction(4 * x), Fraction(2 * x - 2 * ds[0] * e[1], 1) if e[0] == 1 else Fraction(x)])
    return mini, maxi


def bstr(b):
    if b is None:
        return None
    return "%d/%d" % (b.numerator, b.denominator)


SCALES = (0, 0, 0, -80, -60, 50, -300, 200)


def make_case(ctor, m, pts, e, mini, maxi, dim, origin):
    # the unit (a power of two: exact) and how many create_complex calls the object has already served are a function of the data
    h = zlib.crc32(repr((ctor, m, list(e), dim)).encode())
    return dict(scale=SCALES[h % 8], pre=(h >> 8) % 3, ctor=ctor, n=len(m), eps=list(e), mini=bstr(mini), maxi=bstr(maxi), dim=dim, points=pts, matrix=m, origin=origin)


def generate(rng, tier):
    cases = []
    cdir = os.path.join(core.ROOT, "corpus", "C19")
    if os.path.isdir(cdir):
        for f in sorted(os.listdir(cdir)):
            if f.endswith(".json"):
                c = json.load(open(os.path.join(cdir, f)))
                c["origin"] = "corpus"
                cases.append(c)
    thorough = tier == "thorough"
    # boundary stream: configurations where the tests of the edge rule / blocker / cut-offs hit equality
    for e in EPS:
        for b in (2, 3, 4):
            for n in (3, 5, 7):
                xs = [0] + [b ** i for i in range(n - 1)]
                m = [[abs(x - y) for y in xs] for x in xs]
                for dim in (1, 2, 3):
                    cases.append(make_case("M", m, None, e, None, None, dim, "boundary:geometric-line"))
                cases.append(make_case("L", m, [[x] for x in xs], e, Fraction(b), Fraction(2 * b * b), 2, "boundary:geometric-line+bounds"))
        # equilateral (all ties), two far clusters, duplicate points, single point, two points
        for n in (1, 2, 3, 4, 6):
            m = [[0 if i == j else 4 for j in range(n)] for i in range(n)]
            cases.append(make_case("M", m, None, e, None, None, 3, "boundary:equilateral"))
        m = matrix_of_points([[0, 0], [0, 0], [8, 0], [8, 0], [8, 6]], "E")
        cases.append(make_case("E", m, [[0, 0], [0, 0], [8, 0], [8, 0], [8, 6]], e, None, None, 2, "boundary:duplicate-points"))
        pts = [[0, 0], [1, 0], [0, 1], [100, 0], [101, 0], [100, 1], [50, 80]]
        cases.append(make_case("X", matrix_of_points(pts, "X"), pts, e, None, None, 3, "boundary:clusters"))
    if thorough:
        for i in range(6):
            n, dim = [(12, 2), (11, 2), (9, 3), (12, 2)][i % 4]
            e = [(1, 2), (1, 4), (9, 10), (1, 10)][(i // 2) % 4]
            if i % 2 == 0:
                m, st = gen_metric_matrix(rng, n)
                c = make_case("M", m, None, e, None, None, dim, "big:matrix:" + st)
            else:
                pts, st = gen_points(rng, n, 2)
                c = make_case("X", matrix_of_points(pts, "X"), pts, e, None, None, dim, "big:points:X:" + st)
            c["big"] = True
            cases.append(c)
    nrand = 2000 if thorough else 330
    for i in range(nrand):
        e = EPS[i % len(EPS)] if rng.random() < 0.9 else rng.choice([(1, 8), (3, 4), (7, 8), (1, 16), (4, 1), (3, 2)])
        n = rng.choice([2, 3, 4, 5, 5, 6, 6, 7, 7, 8, 8, 9, 10, 11, 12])
        dim = rng.choice([1, 2, 2, 2, 3, 3, 4, 5]) if rng.random() < 0.94 else rng.choice([0, 0, -1])
        if dim <= 0:
            n = min(n, 9)
        r = rng.random()
        if r < 0.35:
            m, st = gen_metric_matrix(rng, n)
            ctor, pts, origin = "M", None, "matrix:" + st
        elif r < 0.45:
            pts = gen_integral_euclid(rng, n)
            m = matrix_of_points(pts, "E")
            if m is None:
                continue
            ctor, origin = "E", "points:euclid-integral"
        else:
            k = rng.choice([1, 2, 2, 3])
            pts, st = gen_points(rng, n, k)
            ctor = rng.choice(["L", "X"])
            m = matrix_of_points(pts, ctor)
            origin = "points:%s:%s" % (ctor, st)
        mini, maxi = pick_bounds(rng, m, e)
        cases.append(make_case(ctor, m, pts, e, mini, maxi, dim, origin))
    return cases


# ------------------------------------------------------------------------------------------------ running and comparing
def harness_line(c):
    n = c["n"]
    if c["ctor"] == "M":
        data = " ".join(str(x) for row in c["matrix"] for x in row)
        k = 0
    else:
        k = len(c["points"][0]) if c["points"] else 0
        data = " ".join(str(x) for p in c["points"] for x in p)
    head = "H %d %d" % (c.get("scale", 0), c.get("pre", 0)) if (c.get("scale") or c.get("pre")) else "C"
    return head + " %s %d %d %d %s %s %d %d %s" % (c["ctor"], n, c["eps"][0], c["eps"][1], c["mini"] or "-inf", c["maxi"] or "inf", c["dim"], k, data)


def parse_cpp(ans):
    """'ORD .. | S v,v:hex ...' -> (order string, [(simplex tuple, Fraction)]) or raises"""
    a, b = ans.split(" | ", 1)
    order = a[3:].strip()
    sx = []
    for w in b.split()[1:]:
        vs, h = w.split(":")
        f = float.fromhex(h)
        if f != f or f in (float("inf"), float("-inf")):
            raise ValueError("non-finite filtration value " + w)
        sx.append((tuple(int(x) for x in vs.split(",")), Fraction(f)))
    sx.sort(key=lambda t: (len(t[0]), t[0]))
    return order, sx


def cplx_str(sx):
    return " ".join("%s:%d/%d" % (",".join(map(str, s)), f.numerator, f.denominator) for s, f in sx)


def parse_model(s):
    out = []
    for w in s.split():
        vs, q = w.split(":")
        a, b = q.split("/")
        out.append((tuple(int(x) for x in vs.split(",")), Fraction(int(a), int(b))))
    return out


def oracle_line(c, order, sx):
    e = c["eps"]
    exact = eps_exact(e)
    q = Fraction(e[0], e[1]) if exact else Fraction(float(e[0]) / float(e[1]))
    flags = "" if exact else "A"
    if c["mini"] is None and c["maxi"] is None and q < 1 and c["dim"] >= 1 and rips_size(c["n"], c["dim"]) <= (MAX_RIPS_BIG if c.get("big") else MAX_RIPS):
        flags += "I"
    flags = flags or "-"
    mat = " ".join(str(x) for row in c["matrix"] for x in row)
    return "%s %d %d %d %s %s %d | %s | %s | %s" % (flags, c["n"], q.numerator, q.denominator, c["mini"] or "-inf", c["maxi"] or "inf", c["dim"],
                                                  mat, order, cplx_str(sx)), flags


def branch_stats(c, order, res):
    """which branch of the edge rule each pair of kept points takes (exact rationals, nominal epsilon); coverage only"""
    e = Fraction(c["eps"][0], c["eps"][1])
    m = c["matrix"]
    pi = [int(x) for x in order.split()]
    lam = [None] + [Fraction(min(m[pi[i]][pi[j]] for j in range(i))) for i in range(1, len(pi))]
    cst = e * (1 - e) / 2
    for i in range(len(pi)):
        for j in range(i + 1, len(pi)):
            d = Fraction(m[pi[i]][pi[j]])
            lj = lam[j]
            if d * e <= 2 * lj:
                res.count("edge-rule: alpha = d" + (" (tie d*eps = 2*lambda_j)" if d * e == 2 * lj else ""))
            elif lam[i] is not None and d * e > lam[i] + lj:
                res.count("edge-rule: dropped, d*eps > lambda_i + lambda_j")
            else:
                if lam[i] is not None and d * e == lam[i] + lj:
                    res.count("edge-rule: tie d*eps = lambda_i + lambda_j")
                al = (d - lj / e) * 2
                if e < 1 and al * cst > lj:
                    res.count("edge-rule: dropped, vertex j dead before alpha")
                else:
                    res.count("edge-rule: alpha = 2(d - lambda_j/eps)" + (" (tie alpha*cst = lambda_j)" if al * cst == lj else ""))


def evaluate(c, cpp, orc, res=None):
    """compare one run; returns None or (kind, what, expected, observed)"""
    if cpp.startswith("CRASH") or cpp.startswith("DIED"):
        return ("crash", "the implementation crashed (%s)" % cpp.split()[0], "no crash", cpp[:80])
    if cpp.startswith("EXC"):
        return ("exception", "constructor/create_complex threw: " + cpp[4:80], "no exception", cpp[:120])
    if orc is None:
        return ("protocol", "unparsable harness answer", "-", cpp[:120])
    if orc.startswith("ERR") or " | M" not in orc:
        return ("protocol", "oracle failed: " + orc[:120], "-", orc[:120])
    order, sx = parse_cpp(cpp)
    if "?" in order:
        return ("order-unobservable", "the distance-call pattern of compute_sparse_graph changed: the farthest-point order cannot be read off",
                "dist(sorted[i], sorted[j]) for all i<j as the last calls", order, )
    parts = orc.split(" | ")
    flagsd = dict(x.split("=") for x in parts[0].split())
    model = parse_model(parts[1][2:])
    if res is not None:
        res.evaluations += 1
        res.traces_validated += 1
        res.count("simplices-compared", len(sx))
        branch_stats(c, order, res)
        res.count("unit of length 2^%d" % c.get("scale", 0))
        res.count("create_complex calls served before by the same object: %d" % c.get("pre", 0))
        res.count("kept-vertices:" + ("all" if len(order.split()) == c["n"] else "cut by mini / lambda <= 0"))
    if flagsd["sub"] != "1":
        bad = [s for s in sx if any(c["matrix"][u][v] > s[1] for u in s[0] for v in s[0])][:1]
        return ("spec:not-a-rips-simplex-or-earlier", "a simplex of the sparse complex appears before it does in the Rips filtration (or is no Rips simplex): %s"
                % (bad,), "value >= max pairwise distance", str(bad))
    if flagsd["valid"] != "1":
        return ("spec:invalid-filtration", "the output is not a filtered simplicial complex (a face is missing or later than a coface)", "closed, monotone", cplx_str(sx)[:300])
    if flagsd["greedy"] == "1" and flagsd["ok"] != "1":
        return ("mini-cut", "the set of kept points (%s of %d) does not follow the rule 'stop at the first insertion radius < mini or <= 0' (mini=%s)"
                % (order, c["n"], c["mini"]), "cut at the first radius < mini or <= 0", order)
    if flagsd["ok"] != "1":
        return ("farthest-point-order", "the order used by the implementation (%s) is not a farthest-point order / the mini cut is inconsistent" % order,
                "greedy permutation", order)
    if flagsd.get("lvl") != "1":
        return ("model:level-wise-vs-traversal", "the two algorithm models of the expansion (level by level / following the simplex-tree traversal) "
                "disagree for order %s" % order, "equal", "different")
    exact = eps_exact(c["eps"])
    if os.environ.get("C19_SPEC_ONLY"):      # development aid: evaluate the specification only
        pass
    elif exact or flagsd["sens"] != "1":
        if [s for s, _ in model] != [s for s, _ in sx]:
            a, b = set(s for s, _ in model), set(s for s, _ in sx)
            return ("model:simplex-set-differs", "the complex differs from the model for order %s: only in model %s, only in C++ %s"
                    % (order, sorted(a - b)[:4], sorted(b - a)[:4]), str(sorted(a - b)[:6]), str(sorted(b - a)[:6]))
        for (s, f), (_, g) in zip(model, sx):
            if (f != g) if exact else (abs(f - g) > Fraction(1, 2 ** 44) * max(1, abs(f))):
                return ("model:filtration-value-differs", "simplex %s has value %s in the C++ and %s in the model (order %s)" % (list(s), g, f, order), str(f), str(g))
    elif res is not None:
        res.count("rounding-sensitive (eps not a power of two): structure not compared")
    if flagsd["inter"] == "fail":
        return ("protocol", "the certified reduction failed", "-", "-")
    if flagsd["inter"] == "0":
        return ("spec:interleaving-bound", "persistence diagrams of the sparse and the Rips filtration are farther apart than 1/(1-eps) (order %s): %s"
                % (order, " | ".join(parts[2:])[:600]), "multiplicative bottleneck distance <= 1/(1-eps)", " | ".join(parts[2:])[:1500])
    if res is not None and flagsd["inter"] in ("1", "1x"):
        res.count("interleaving-bound measured (Z_2 and Z_3)")
        res.count("interleaving eps=%d/%d: sparse and Rips diagrams %s" % (c["eps"][0], c["eps"][1],
                  "differ (within the bound)" if flagsd["inter"] == "1x" else "coincide"))
        if len(parts) >= 3 and parts[2].startswith("T "):
            res.count("interleaving: %s/8 of the allowed excess 1/(1-eps)-1 is needed" % parts[2].split()[1])
            parts = parts[:2] + parts[3:]
        if len(parts) >= 4 and parts[2].split("sparse:")[1] != parts[3].split("sparse:")[1]:
            res.count("barcode differs between Z_2 and Z_3")
    return None


def run_cases(drv, orc, cases, runs, res=None, workers=4):
    """returns per case the list of (cpp answer, oracle answer) for `runs` runs"""
    lines = []
    for c in cases:
        lines += [harness_line(c)] * runs
    chunks = [lines[i::workers] for i in range(workers)]

    def hrun(ch):
        if not ch:
            return []
        return core.run_grouped(drv, [("G", ch)], timeout=3600)[0][1]
    outs = core.parallel_map(hrun, chunks, workers=workers)
    cpp = [None] * len(lines)
    for w in range(workers):
        for i, a in enumerate(outs[w]):
            cpp[w + i * workers] = a
    olines, idx = [], []
    for i, a in enumerate(cpp):
        c = cases[i // runs]
        if a and a.startswith("ORD"):
            try:
                order, sx = parse_cpp(a)
                olines.append(oracle_line(c, order, sx)[0])
                idx.append(i)
            except Exception:
                pass
    ochunks = [olines[i::workers] for i in range(workers)]

    def orun(ch):
        if not ch:
            return []
        return core.run_grouped(orc, [("G", ch)], timeout=7200)[0][1]
    oouts = core.parallel_map(orun, ochunks, workers=workers)
    oans = [None] * len(lines)
    for w in range(workers):
        for i, a in enumerate(oouts[w]):
            oans[idx[w + i * workers]] = a
    return [[(cpp[i * runs + r], oans[i * runs + r]) for r in range(runs)] for i in range(len(cases))]


def first_violation(c, pairs, res=None):
    for cpp, o in pairs:
        try:
            v = evaluate(c, cpp or "DIED", o, res)
        except Exception as ex:
            v = ("protocol", "cannot evaluate: %r" % (ex,), "-", (cpp or "")[:120])
        if v:
            return v
    return None


def drop_point(c, i):
    n = c["n"]
    keep = [j for j in range(n) if j != i]
    d = dict(c)
    d["n"] = n - 1
    d["matrix"] = [[c["matrix"][a][b] for b in keep] for a in keep]
    d["points"] = [c["points"][a] for a in keep] if c["points"] else None
    d.pop("big", None)
    return d


def shrink(drv, orc, c, kind, budget=40):
    cur = c
    changed = True
    while changed and budget > 0 and cur["n"] > 2:
        changed = False
        for i in range(cur["n"]):
            budget -= 1
            cand = drop_point(cur, i)
            v = first_violation(cand, run_cases(drv, orc, [cand], 6, workers=1)[0])
            if v and v[0] == kind:
                cur = cand
                changed = True
                break
            if budget <= 0:
                break
    return cur


def check(ctx, replay=None):
    res = core.Result()
    if not getattr(ctx, "skip_proof", False):
        ctx.prove(["Extract_C19.vo"])
    drv = ctx.build_harness("c19_drv.cpp", flags=[])
    orc = ctx.build_oracle("c19")
    if replay:
        cases = [replay["case"]]
        runs = 40
    else:
        cases = generate(ctx.rng, ctx.tier)
        runs = RUNS
    out = run_cases(drv, orc, cases, runs, workers=4)
    seen = {}
    for c, pairs in zip(cases, out):
        res.count("origin:" + c.get("origin", "replay"))
        res.count("n:%d" % c["n"])
        res.count("eps:%d/%d" % tuple(c["eps"]))
        res.count("ctor:" + {"M": "distance matrix", "E": "points+Euclidean", "L": "points+L1", "X": "points+Linf"}[c["ctor"]])
        res.count("dim_max:%d" % c["dim"])
        res.count("bounds:" + ("mini " if c["mini"] else "") + ("maxi" if c["maxi"] else "") if (c["mini"] or c["maxi"]) else "bounds:default")
        starts = {p[0].split()[1] for p in pairs if p[0] and p[0].startswith("ORD") and len(p[0].split()) > 1}
        res.count("distinct random starting points seen for one input: %d" % len(starts))
        if c["n"] >= 2:
            res.distinct.add(json.dumps([c["ctor"], c["eps"], c["mini"], c["maxi"], c["dim"], c["matrix"]]))
        v = first_violation(c, pairs, res)
        if v:
            seen.setdefault(v[0], []).append((c, v))
    for kind, lst in seen.items():
        lst.sort(key=lambda t: t[0]["n"])
        c, v = lst[0]
        if not replay and kind not in ("protocol",):
            small = shrink(drv, orc, c, kind)
            v2 = first_violation(small, run_cases(drv, orc, [small], 12, workers=1)[0])
            if v2 and v2[0] == kind:
                c, v = small, v2
        case = {k: c[k] for k in ("ctor", "n", "eps", "mini", "maxi", "dim", "points", "matrix")}
        if c.get("big"):
            case["big"] = True
        for _ in lst:
            res.violation(kind, v[1], case, expected=v[2], observed=v[3])
    res.rule = ("one case = (constructor, integer metric, epsilon, mini, maxi, dim_max); distinct = distinct such tuples with n >= 2; each case is "
                "run %d times (random starting point inside the class); evaluations = runs whose complete complex (all simplices with values) was "
                "compared with the model and checked against the specification" % runs)
    rs = [c for c in cases if c.get("origin", "").startswith(("matrix", "points"))] or cases
    res.samples = [{k: c[k] for k in ("ctor", "n", "eps", "mini", "maxi", "dim", "matrix")} for c in rs[:5]]
    return core.finish(ctx, None, res, TRUSTED, ASSUMPTIONS, LEVEL,
                       "cd /verif/coq && make -f Makefile.coq Properties_C19.vo  (coqc 8.16.1; Print Assumptions after every theorem)",
                       explanation=EXPLANATION, correspondence_name=CORRESPONDENCE)
