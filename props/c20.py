"""C20 - Coxeter / Freudenthal-Kuhn triangulations: consistent face lattice and exact point location."""
import itertools
from fractions import Fraction
from vlib import core

LEVEL = "proof"
MANIFEST = dict(
    cat="proof",
    tech="Coq proofs, for every ambient dimension, about a transcription of the permutahedral-representation iterators, "
         "is_face_of and locate_point (face/coface lattice consistency, barycentric characterisation and uniqueness of the "
         "located simplex, translation invariance; the lattice clauses additionally by vm_compute for dimension <= 4) + "
         "differential correspondence with the C++ on every simplex around a vertex",
    text="The Gallina model follows Vertex_iterator, Combination_iterator, face_from_indices/Face_iterator, "
         "Integer_combination_iterator, Coface_iterator::update_value, the Set_partition/Permutation state machines of "
         "Ordered_set_partition_iterator, is_face_of and locate_point (floor, fractional parts, descending sort, grouping). "
         "Theorems, all unbounded in the dimension: a canonical k-simplex has k+1 distinct vertices; face_range(k) has "
         "binom(dim+1,k+1) elements, all valid k-simplices with distinct vertex sets inside the simplex and recognised by "
         "is_face_of; every enumerated coface is a valid simplex of the requested dimension containing the simplex, listing it "
         "among its faces, without repetition, and every simplex is enumerated among the cofaces of each of its faces; "
         "is_face_of decides vertex-set inclusion; the located simplex has the point as strictly positive convex combination "
         "of its vertices (weights sum to one), is canonical, and is the only such simplex; faces/cofaces/is_face_of commute "
         "with translations.  The model is tied to the C++ by running both on all simplices around a vertex (d<=4, d=5 in the "
         "thorough tier, samples in d=5/6), all ordered pairs of the star for is_face_of, the helper iterators in enumeration "
         "order, and dyadic points built in the relative interior of every simplex of every dimension under scales, matrices, "
         "offsets and the Coxeter matrix; cartesian_coordinates and barycenter are compared exactly.",
    note="Trusted: Coq kernel, extraction + OCaml driver, the hand transcription (validated by the differential run), g++/Eigen. "
         "The inductive coface theorems speak about a set-level enumeration (`cofaces`, `osp`); that the transcribed state machines "
         "(`cofaces_iter`: odometer with reinitialize(); `osp_iter`) enumerate the same sets is proved by computation only "
         "(ambient dimension <= 5 resp. n <= 5, bound in the statement) and checked on every compared line beyond. "
         "The 1e-9 tolerance of locate_point is replaced by exact comparison on inputs whose fractional parts are equal or "
         ">= 2^-24 apart; on numerically unstable inputs (integer coordinates through a QR solve, 2^-40 perturbations) only "
         "containment within 1e-9 is required.  The Coxeter matrix itself (eigen-decomposition) is not modelled: points are "
         "mapped through the matrix the library reports.  Non-canonical inputs (d outside the last part) are out of scope.",
    ref="design/C20.md")
CORRESPONDENCE = "coq/C20_Model.v (extracted: ocaml/c20_oracle.ml) vs harness/c20_drv.cpp on identical operation lines"
TRUSTED = [
    "Coq 8.16.1 kernel (coqc, full .vo build); vm_compute used only in the theorems whose statement carries a bound (ambient dimension <= 4, "
    "osp_iter n <= 5) and in Examples",
    "extraction (ExtrOcamlBasic only; Z/positive/Q/nat stay inductive) + OCaml 4.13.1 + ocaml/prelude.ml, ocaml/c20_oracle.ml",
    "hand-written model coq/C20_Model.v of Vertex_iterator, face_from_indices, Combination_iterator, Integer_combination_iterator, "
    "Coface_iterator::update_value, Set_partition_iterator, Permutation_iterator, is_face_of, locate_point, cartesian_coordinates, "
    "barycenter; tied to the C++ by differential runs, not by translation",
    "harness/c20_drv.cpp, g++ 12.2, Eigen 3 (ColPivHouseholderQR, SelfAdjointEigenSolver), props/c20.py generators and canonicalisation",
    "un-formalised mathematics: that the simplices cover R^d and meet face to face is only proved in the form 'every rational point lies in "
    "the relative interior of exactly one canonical simplex'; invertibility of the matrix (the preimage is supplied by the generator and "
    "checked exactly, M x/scale + offset = p)",
]
ASSUMPTIONS = [
    "simplices are in the library's canonical form: ordered partition of {0..d}, all parts non-empty, d in the last part",
    "points, scales, matrices and offsets are dyadic rationals of small height, so that every double operation of the "
    "Freudenthal path is exact; through a matrix the QR solve is inexact and only tolerance-stable points are used",
    "fractional parts of compared points are equal or at least 2^-24 apart (the C++ merges differences below 1e-9)",
    "std::sort's order among equal keys is unspecified: the parts returned by locate_point are compared as sets",
]


# ---------------------------------------------------------------------------------------------- combinatorics (generator side)
def osp_all(elems, k):
    """ordered partitions of the list elems into k non-empty blocks (blocks as sorted tuples)"""
    n = len(elems)
    out = []
    for lab in itertools.product(range(k), repeat=n):
        if len(set(lab)) != k:
            continue
        out.append(tuple(tuple(e for e, l in zip(elems, lab) if l == j) for j in range(k)))
    return out


_canon_cache = {}


def canon_parts(d):
    if d not in _canon_cache:
        r = []
        for k in range(1, d + 2):
            for ps in osp_all(list(range(d + 1)), k):
                if d in ps[-1]:
                    r.append(ps)
        _canon_cache[d] = r
    return _canon_cache[d]


def random_parts(rng, d):
    k = rng.randint(1, d + 1)
    while True:
        lab = [rng.randrange(k) for _ in range(d)] + [k - 1]
        if len(set(lab)) == k:
            return tuple(tuple(i for i in range(d + 1) if lab[i] == j) for j in range(k))


def sx(v, ps):
    return ",".join(map(str, v)) + ";" + "|".join(",".join(map(str, p)) for p in ps)


def parse_sx(s):
    v, p = s.split(";")
    return (tuple(int(x) for x in v.split(",") if x), tuple(tuple(int(x) for x in q.split(",") if x) for q in p.split("|")))


def star_of_origin(d):
    """every simplex having the origin as a vertex: (minus indicator of P_0..P_{j-1}, ps)"""
    out = []
    for ps in canon_parts(d):
        for j in range(len(ps)):
            v = [0] * d
            for p in ps[:j]:
                for i in p:
                    v[i] -= 1
            out.append((tuple(v), ps))
    return out


def qs(fr):
    fr = Fraction(fr)
    return "%d/%d" % (fr.numerator, fr.denominator)


def is_dyadic(fr):
    den = Fraction(fr).denominator
    return den & (den - 1) == 0


class Gen:
    def __init__(self):
        self.groups = []
        self.tolerant = set()    # (header, line): inputs on which only containment within the 1e-9 tolerance is required

    def tol(self):
        self.tolerant.add((self.groups[-1][0], self.groups[-1][1][-1]))

    def G(self, *a):
        self.groups.append((("G " + " ".join(map(str, a))).strip(), []))

    def op(self, *a):
        self.groups[-1][1].append(" ".join(map(str, a)))


def gen_perm(g, rng, d, simplices, pairs_all, shifts):
    g.G(d, "perm")
    for (v, ps) in simplices:
        k = len(ps) - 1
        for a in shifts:
            s = sx([x + y for x, y in zip(v, a)], ps)
            g.op("V", s)
            g.op("D", s)
            for kk in range(k + 1):
                g.op("F", kk, s)
            if k >= 1:
                g.op("FT", s)
            for l in range(k, d + 1):
                g.op("C", l, s)
            if k < d:
                g.op("CT", s)
    return g


def gen_pairs(g, rng, d, S, limit):
    g.G(d, "perm")
    pairs = [(a, b) for a in S for b in S]
    if limit and len(pairs) > limit:
        pairs = rng.sample(pairs, limit)
    for (a, b) in pairs:
        g.op("I", sx(*a), sx(*b))
    # pairs that are close but not in one star, shifted far away
    for _ in range(min(400, len(S) * 4)):
        a = rng.choice(S)
        b = rng.choice(S)
        off = [rng.choice((-1, 0, 0, 1)) for _ in range(d)]
        far = [rng.choice((0, 1000003, -77777)) for _ in range(d)]
        g.op("I", sx([x + f for x, f in zip(a[0], far)], a[1]), sx([x + o + f for x, o, f in zip(b[0], off, far)], b[1]))
    for _ in range(min(200, len(S) * 2)):
        a = rng.choice(S)
        b = rng.choice(S) if rng.random() < 0.7 else a
        g.op("EQ", sx(*a), sx(*b))


def gen_iterators(g, thorough):
    g.G(1, "perm")
    for n in range(1, 8 if thorough else 7):
        for k in range(1, n + 1):
            g.op("CMB", n, k)
    for n in range(1, 7 if thorough else 6):
        for k in range(1, n + 1):
            g.op("OSP", n, k)
            g.op("OSPI", n, k)
    for k in range(1, 5 if thorough else 4):
        for b in itertools.product(range(0, 4 if thorough else 3), repeat=k):
            for n in range(1, sum(b) + 1):
                g.op("ICB", n, k, ",".join(map(str, b)))


def levels_for(rng, k, m, mode):
    """k strictly decreasing dyadic levels in (0,1) (multiples of 2^-m) followed by 0"""
    while (1 << m) - 1 < k:
        m += 1
    den = 1 << m
    if mode == "tight" and k <= den - 1:          # consecutive multiples: differences exactly 2^-m
        top = rng.randint(k, den - 1)
        nums = list(range(top, top - k, -1))
    elif mode == "edge" and k <= den - 1:         # hugging 1 and 0
        nums = sorted(set([den - 1, 1] + rng.sample(range(1, den), min(k, den - 1))), reverse=True)[:k]
        while len(nums) < k:
            nums = sorted(set(nums + [rng.randint(1, den - 1)]), reverse=True)
    else:
        nums = sorted(rng.sample(range(1, den), k), reverse=True)
    return [Fraction(n, den) for n in nums[:k]] + [Fraction(0)]


def point_in(rng, v, ps, m, mode):
    """a point of the relative interior of the simplex (v, ps): x_i = v_i + level(part of i)"""
    d = len(v)
    lv = levels_for(rng, len(ps) - 1, m, mode)
    x = [None] * d
    for j, p in enumerate(ps):
        for i in p:
            if i < d:
                x[i] = Fraction(v[i]) + lv[j]
    return x


def rand_vertex(rng, d, big=False):
    r = 1 << 20 if big else 4
    return tuple(rng.randint(-r, r) for _ in range(d))


def gen_locate_freud(g, rng, d, parts_list, thorough, expected):
    g.G(d, "freud")
    scales = [Fraction(1), Fraction(2), Fraction(1, 4), Fraction(8), Fraction(3), Fraction(5, 2)]
    for ps in parts_list:
        for rep in range(3 if thorough else 2):
            for scale in scales if rep == 0 else [rng.choice(scales)]:
                mode = rng.choice(("rand", "tight", "edge"))
                m = rng.choice((3, 4, 6, 10, 24)) if len(ps) - 1 < 7 else 6
                v = rand_vertex(rng, d, big=(rng.random() < 0.2))
                x = point_in(rng, v, ps, m, mode)
                # the point handed to the library is x/scale and must be dyadic: shift v so that every numerator divides
                odd = scale.numerator
                while odd % 2 == 0:
                    odd //= 2
                if odd != 1:
                    v = list(v)
                    for i in range(d):
                        while (x[i] * (1 << m)).numerator % odd != 0:
                            x[i] += 1
                            v[i] += 1
                    v = tuple(v)
                p = [xi / scale for xi in x]
                assert all(is_dyadic(c) for c in p)
                line = "L %s %s" % (qs(scale), " ".join(qs(c) for c in p))
                g.op(line)
                expected[(g.groups[-1][0], line)] = sx(v, ps)
    # points a hair (2^-40 < 1e-9) off lower-dimensional faces: the implementation may merge or not; containment within tolerance
    for ps in (parts_list if len(parts_list) <= 40 else rng.sample(parts_list, 40)):
        v = rand_vertex(rng, d)
        x = point_in(rng, v, ps, rng.choice((3, 4, 6)), rng.choice(("rand", "tight", "edge")))
        x = [xi + rng.choice((-1, 0, 0, 1, 2)) * Fraction(1, 1 << 40) for xi in x]
        scale = rng.choice((Fraction(1), Fraction(2), Fraction(1, 4)))
        g.op("L %s %s" % (qs(scale), " ".join(qs(xi / scale) for xi in x)))
        g.tol()
    # unstructured dyadic points, integer points, negative, large
    for _ in range(60 if thorough else 25):
        m = rng.choice((0, 1, 2, 3, 8))
        p = [Fraction(rng.randint(-(1 << (m + 3)), 1 << (m + 3)), 1 << m) for _ in range(d)]
        g.op("L %s %s" % (qs(rng.choice((Fraction(1), Fraction(2), Fraction(1, 2), Fraction(3)))), " ".join(qs(c) for c in p)))
    g.op("L 1/1 " + " ".join("0/1" for _ in range(d)))
    g.op("L 1/1 " + " ".join("-1/1" for _ in range(d)))
    g.op("L 1/1 " + " ".join(qs(Fraction(-1, 1 << 24)) for _ in range(d)))
    g.op("L 1/1 " + " ".join(qs(Fraction((1 << 30) + i, 1 << 10)) for i in range(d)))


def rand_matrix(rng, d, cls):
    while True:
        if cls == "id":
            return [[Fraction(1 if i == j else 0) for j in range(d)] for i in range(d)]
        if cls == "diag":
            M = [[Fraction(0)] * d for _ in range(d)]
            for i in range(d):
                M[i][i] = Fraction(rng.choice((1, 2, 4, -1, -2)), rng.choice((1, 2, 8)))
        elif cls == "int":
            M = [[Fraction(rng.randint(-2, 2)) for _ in range(d)] for _ in range(d)]
        else:
            M = [[Fraction(rng.randint(-6, 6), rng.choice((1, 2, 4))) for _ in range(d)] for _ in range(d)]
        if det(M) != 0 and (cls == "diag" or abs(det(M)) >= Fraction(1, 4)):
            return M


def det(M):
    n = len(M)
    M = [row[:] for row in M]
    r = Fraction(1)
    for c in range(n):
        piv = next((i for i in range(c, n) if M[i][c] != 0), None)
        if piv is None:
            return Fraction(0)
        if piv != c:
            M[c], M[piv] = M[piv], M[c]
            r = -r
        r *= M[c][c]
        for i in range(c + 1, n):
            f = M[i][c] / M[c][c]
            for j in range(c, n):
                M[i][j] -= f * M[c][j]
    return r


def gen_affine(g, rng, d, parts_list, kind, cls, expected, thorough):
    M = rand_matrix(rng, d, cls)
    off = [Fraction(0)] * d if kind == "matrix" else [Fraction(rng.randint(-8, 8), rng.choice((1, 2, 4))) for _ in range(d)]
    g.G(d, kind, " ".join(qs(c) for row in M for c in row), " ".join(qs(c) for c in off))
    hdr = g.groups[-1][0]
    pl = parts_list
    if len(pl) > (80 if thorough else 40):
        pl = rng.sample(pl, 80 if thorough else 40)
    for ps in pl:
        unstable = cls not in ("diag", "id") and len(ps[-1]) > 1
        scale = rng.choice((Fraction(1), Fraction(2), Fraction(1, 2), Fraction(4)))
        v = rand_vertex(rng, d)
        x = point_in(rng, v, ps, rng.choice((3, 4, 5)), rng.choice(("rand", "tight", "edge")))
        y = [xi / scale for xi in x]
        p = [sum(M[i][j] * y[j] for j in range(d)) + off[i] for i in range(d)]
        line = "L %s %s | %s" % (qs(scale), " ".join(qs(c) for c in p), " ".join(qs(c) for c in x))
        g.op(line)
        expected[(hdr, line)] = sx(v, ps)
        if unstable:
            g.tol()
        line = "LC %s %s" % (qs(scale), " ".join(qs(c) for c in x))
        g.op(line)
        expected[(hdr, line)] = sx(v, ps)
        if unstable:
            g.tol()
    # cartesian coordinates and barycenters (power-of-two scales: exact in double)
    for ps in (parts_list if len(parts_list) <= 40 else rng.sample(parts_list, 40)):
        v = rand_vertex(rng, d)
        scale = rng.choice((Fraction(1), Fraction(2), Fraction(1, 2), Fraction(8)))
        g.op("K", qs(scale), ",".join(map(str, v)))
        g.op("B", qs(scale), sx(v, ps))
    for ps in (parts_list if len(parts_list) <= 40 else rng.sample(parts_list, 40)):
        v = rand_vertex(rng, d)
        line = "LB %s %s" % (qs(rng.choice((Fraction(1), Fraction(2), Fraction(1, 2)))), sx(v, ps))
        g.op(line)
        expected[(hdr, line)] = sx(v, ps)
        if len(ps[-1]) > 1:
            g.tol()
    g.op("DIM")


def gen_coxeter(g, rng, d, parts_list, expected, thorough):
    g.G(d, "coxeter")
    hdr = g.groups[-1][0]
    pl = parts_list
    if len(pl) > (100 if thorough else 40):
        pl = rng.sample(pl, 100 if thorough else 40)
    for ps in pl:
        scale = rng.choice((Fraction(1), Fraction(2), Fraction(1, 2)))
        v = rand_vertex(rng, d)
        x = point_in(rng, v, ps, rng.choice((3, 4)), "rand")
        line = "LC %s %s" % (qs(scale), " ".join(qs(c) for c in x))
        g.op(line)
        expected[(hdr, line)] = sx(v, ps)
        if len(ps[-1]) > 1:
            g.tol()
        v = rand_vertex(rng, d)
        line = "LB %s %s" % (qs(rng.choice((Fraction(1), Fraction(2), Fraction(1, 2)))), sx(v, ps))
        g.op(line)
        expected[(hdr, line)] = sx(v, ps)
        if len(ps[-1]) > 1:
            g.tol()
    g.op("DIM")


def gen_freud_coords(g, rng, d, parts_list, expected):
    g.G(d, "freud")
    for ps in (parts_list if len(parts_list) <= 60 else rng.sample(parts_list, 60)):
        v = rand_vertex(rng, d, big=(rng.random() < 0.2))
        scale = rng.choice((Fraction(1), Fraction(2), Fraction(1, 4), Fraction(16)))
        g.op("K", qs(scale), ",".join(map(str, v)))
        g.op("B", qs(scale), sx(v, ps))
        line = "LB %s %s" % (qs(scale), sx(v, ps))
        g.op(line)
        expected[(g.groups[-1][0], line)] = sx(v, ps)
        if len(ps[-1]) > 1:
            g.tol()
    g.op("DIM")


def generate(rng, tier):
    thorough = tier == "thorough"
    g = Gen()
    expected = {}
    gen_iterators(g, thorough)
    for d in range(1, 5):
        cp = canon_parts(d)
        base = [((0,) * d, ps) for ps in cp]
        star = star_of_origin(d)
        far = tuple(rng.choice((-1, 1)) * rng.randint(1000, 1 << 20) for _ in range(d))
        gen_perm(g, rng, d, base, None, [(0,) * d, far])
        gen_perm(g, rng, d, [s for s in star if any(s[0])], None, [(0,) * d])
        gen_pairs(g, rng, d, star, None if (d <= 3 or thorough) else 20000)
        gen_locate_freud(g, rng, d, cp, thorough, expected)
        gen_freud_coords(g, rng, d, cp, expected)
        for kind, cls in (("affine", "diag"), ("affine", "int"), ("affine", "dyadic"), ("chg", "int"), ("matrix", "int"), ("chg", "diag"), ("offs", "id")):
            gen_affine(g, rng, d, cp, kind, cls, expected, thorough)
        gen_coxeter(g, rng, d, cp, expected, thorough)
    # beyond the range of the bounded theorems: ambient dimension 5 (complete in the thorough tier), samples in 6
    for d in ((5, 6) if thorough else (5,)):
        if d == 5 and thorough:
            sample = list(canon_parts(5))
            simplices = [((0,) * d, ps) for ps in sample]
        else:
            sample = [random_parts(rng, d) for _ in range(24 if thorough else 12)]
            sample = [ps for ps in sample if d < 6 or len(ps) >= 3]
            simplices = [(rand_vertex(rng, d), ps) for ps in sample]
        gen_perm(g, rng, d, simplices, None, [(0,) * d])
        S = []
        for ps in (rng.sample(sample, 40) if len(sample) > 40 else sample[:6]):
            for j in range(len(ps)):
                v = [0] * d
                for p in ps[:j]:
                    for i in p:
                        v[i] -= 1
                S.append((tuple(v), ps))
        gen_pairs(g, rng, d, S, 40000 if thorough else 1500)
        extra = [random_parts(rng, d) for _ in range(20)]
        gen_locate_freud(g, rng, d, (sample if len(sample) < 200 else rng.sample(sample, 200)) + extra, False, expected)
        gen_affine(g, rng, d, sample if len(sample) < 200 else rng.sample(sample, 200), "affine", "int", expected, False)
        gen_coxeter(g, rng, d, (sample if len(sample) < 200 else rng.sample(sample, 200)) + extra, expected, False)
    for d in ((8, 12, 16) if thorough else (8, 12)):
        gen_locate_freud(g, rng, d, [random_parts(rng, d) for _ in range(30 if thorough else 12)], False, expected)
    return g, expected


SORT_TOKENS = ("OSP",)


def canon_answer(op, ans):
    if op in SORT_TOKENS:
        return " ".join(sorted(ans.split(" ")))
    if op in ("L", "LC", "LB"):
        try:
            v, ps = parse_sx(ans)
            return sx(v, [sorted(p) for p in ps])
        except Exception:
            return ans
    return ans


def compare(ctx, g, res, drv, orc, expected):
    split = []
    for (h, ops) in g.groups:
        if len(ops) <= 1500:
            split.append((h, ops))
        else:
            for k in range(0, len(ops), 1500):
                split.append((h, ops[k:k + 1500]))
    obs = core.run_grouped_parallel(drv, split, timeout=1800, max_restarts=6, cpu=300)
    ogroups = [(h, ["%s => %s" % (l, a) for l, a in zip(ops, ao)]) for (h, ops), (ho, ao) in zip(split, obs)]
    exp = core.run_grouped_parallel(orc, ogroups, timeout=900)
    for (h, ops), (ho, ao), (he, ae) in zip(split, obs, exp):
        hw = h.split()
        d, kind = hw[1], hw[2]
        res.evaluations += 1
        if ho != he:
            res.violation("init:" + kind, "%s -> implementation %s, model %s" % (h, ho, he), {"group": h, "line": ""}, expected=he, observed=ho)
        for line, o, e in zip(ops, ao, ae):
            op = line.split()[0]
            res.evaluations += 1
            res.count("op:" + op)
            res.count("d:%s" % d)
            if op in ("L", "LC", "LB", "K", "B", "DIM"):
                res.count("triangulation:" + kind)
            model, _, spec = e.partition(" # ")
            spec, _, tolspec = spec.partition(" # ")
            tolerant = (h, line) in g.tolerant
            case = {"group": h, "line": line, "tolerant": tolerant}
            co = canon_answer(op, o)
            cm = canon_answer(op, model)
            if op in ("L", "LC", "LB"):
                try:
                    pss = parse_sx(co)[1]
                    res.count("located-dim:%d" % (len(pss) - 1))
                    if parse_sx(o)[1] != pss:
                        res.count("locate:parts-returned-unsorted")
                except Exception:
                    pass
                if tolerant:
                    # only containment within the documented tolerance is required of these inputs
                    res.count("locate:tolerant-input")
                    if tolspec == "tolok":
                        if co != cm:
                            res.count("locate:tolerant-input-neighbouring-simplex-returned")
                    else:
                        res.violation("locate:tolerance:" + kind, "%s | %s: the returned simplex %s does not contain the point "
                                      "within 1e-9 (exact location: %s)" % (h, line, o, model), case, expected=model, observed=o)
                    continue
                want = expected.get((h, line))
                if want is not None and want != co:
                    res.violation("locate:constructed:" + kind, "%s | %s: the point was built in the relative interior of %s, "
                                  "implementation returned %s" % (h, line, want, o), case, expected=want, observed=o)
                    continue
            if e.startswith("MODELEXC") or e in ("BADHINT", "NOSUCHOP"):
                res.violation("model:" + op, "oracle could not evaluate %s | %s: %s" % (h, line, e), case, expected=e, observed=o)
                continue
            if op == "B":
                # exact unless the division is by a non power of two (then 2^-50 relative, decided by the specification)
                if spec != "ok":
                    res.violation("barycenter:" + kind, "%s | %s -> implementation %s, exact %s" % (h, line, o, model), case,
                                  expected=model, observed=o)
                elif co != cm:
                    res.count("barycenter:rounded-division")
                continue
            if co != cm:
                res.violation("%s:%s" % (op, kind), "%s | %s -> implementation %s, model %s" % (h, line, o[:300], model[:300]),
                              case, expected=model, observed=o)
            elif spec and spec != "ok":
                res.violation("spec:%s:%s" % (op, kind), "%s | %s -> answer %s agrees with the algorithm model but violates the "
                              "specification" % (h, line, o[:300]), case, expected="specification holds", observed=o)
        res.traces_validated += 1 + len(ops)


def check(ctx, replay=None):
    res = core.Result()
    if not getattr(ctx, "skip_proof", False):
        ctx.prove(["Extract_C20.vo"])
    drv = ctx.build_harness("c20_drv.cpp", flags=[])
    orc = ctx.build_oracle("c20")
    expected = {}
    if replay:
        g = Gen()
        g.groups = [(replay["case"]["group"], [replay["case"]["line"]] if replay["case"]["line"] else [])]
        if replay["case"].get("tolerant"):
            g.tolerant.add((replay["case"]["group"], replay["case"]["line"]))
    else:
        g, expected = generate(ctx.rng, ctx.tier)
    compare(ctx, g, res, drv, orc, expected)
    alll = [(h, l) for (h, ops) in g.groups for l in ops]
    res.distinct = set(alll)
    res.rule = ("one case = (ambient dimension, triangulation kind with matrix/offset, operation line); operations: vertex_range, "
                "dimension, face_range(k) for every k, facet_range, coface_range(l) for every l, cofacet_range on every simplex "
                "with a given minimal vertex and on every simplex of the star of the origin (and translated far away), is_face_of on "
                "all ordered pairs of the star, the helper iterators, locate_point on a dyadic point built in the relative interior of "
                "every simplex of every dimension (levels random / consecutive 2^-m / hugging 0 and 1) under several scales, matrices, "
                "offsets, cartesian_coordinates and barycenter; distinct = distinct input lines, each calls the implementation once")
    res.exhaustive = False
    if alll:
        res.samples = [{"group": alll[i][0], "line": alll[i][1]} for i in sorted(ctx.rng.sample(range(len(alll)), min(8, len(alll))))]
    res.notes.append("exhaustive sub-domains this run: all canonical simplices with a fixed minimal vertex and all simplices of the star of the "
                     "origin for ambient dimension <= 4%s; all ordered pairs of star simplices for is_face_of for d <= %d" % (
                         " and all simplices with a fixed minimal vertex for d = 5" if ctx.tier == "thorough" else "", 4 if ctx.tier == "thorough" else 3))
    return core.finish(ctx, None, res, TRUSTED, ASSUMPTIONS, LEVEL,
                       "cd /verif/coq && make -f Makefile.coq Properties_C20.vo  (coqc 8.16.1; Print Assumptions after every theorem)",
                       correspondence_name=CORRESPONDENCE)
