"""Shared by C05 / C06 / C08: option grid of Matrix<Options>, generators of filtered cell complexes and of operation
scripts, runner (harness -> oracle with verified checkers)."""
import itertools, os, time, zlib
from vlib import core

COLTYPES = ["LIST", "SET", "HEAP", "VECTOR", "NAIVE_VECTOR", "SMALL_VECTOR", "UNORDERED_SET", "INTRUSIVE_LIST", "INTRUSIVE_SET"]


class Cfg:
    def __init__(self, kind, col, z2=1, idx="CONTAINER", rows=0, intr=1, remrows=0, remcols=0, mapc=0, pair=1, vine=0, rep=0, maxdim=0):
        self.kind = kind  # boundary | ru | chain
        self.rel = None   # True: release build (NDEBUG), False: debug checks on, None: decided by run_cases (half of the option sets)
        self.d = dict(COLT=col, Z2=z2, BOUNDARY=0 if kind == "chain" else 1, IDX=idx, ROWS=rows, INTR_ROWS=intr, REM_ROWS=remrows,
                      REM_COLS=remcols, MAPC=mapc, PAIR=pair, VINE=vine, REP=rep, MAXDIM=maxdim)

    @property
    def flags(self):
        return ["-D%s=%s" % kv for kv in sorted(self.d.items())] + (["-DNDEBUG"] if self.rel else [])

    def release_copy(self):
        import copy
        self.rel = False
        c = copy.copy(self)
        c.d = dict(self.d)
        c.rel = True
        return c

    @property
    def tag(self):
        d = self.d
        return "%s_%s_%s_%s_r%d%d%d_c%d%d_p%dv%dr%dm%d" % (self.kind, d["COLT"].lower(), "z2" if d["Z2"] else "zp", d["IDX"][:3].lower(),
                                                          d["ROWS"], d["INTR_ROWS"], d["REM_ROWS"], d["REM_COLS"], d["MAPC"], d["PAIR"], d["VINE"], d["REP"], d["MAXDIM"]) + \
            ("_rel" if self.rel else "")

    @property
    def z2(self):
        return bool(self.d["Z2"])

    def can(self, what):
        d = self.d
        if what == "RL":
            if not d["REM_COLS"]:
                return False
            if self.kind == "chain" and d["VINE"] and not d["MAPC"]:
                return False
            return True
        if what == "VS":
            return bool(d["VINE"])
        if what == "RM":
            return bool(d["REM_COLS"] and d["VINE"] and (self.kind != "chain" or (d["MAPC"] and d["PAIR"])))
        if what == "REP":
            return bool(d["REP"])
        return True


def valid(c):
    d = c.d
    if d["COLT"] == "HEAP" and d["ROWS"]:
        return False
    if d["VINE"] and not d["Z2"]:
        return False
    if c.kind == "boundary" and (d["VINE"] or d["REP"]):
        return False
    if c.kind == "ru" and not (d["VINE"] or d["REP"]):
        return False
    if c.kind == "chain" and d["VINE"] and not d["PAIR"]:
        return False  # needs the comparator constructor
    if d["REM_ROWS"] and not d["ROWS"]:
        return False
    return True


def grid_c05(rng, tier):
    """option sets for C05: every column type x flavour, indexing, row access, removable, Z2/Zp"""
    out = []
    idxs = ["CONTAINER", "POSITION", "IDENTIFIER"]
    rowopts = [(0, 1, 0), (1, 1, 0), (1, 0, 0), (1, 1, 1), (1, 0, 1)]
    allc = []
    for kind in ("boundary", "ru", "chain"):
        for col in COLTYPES:
            for z2 in (1, 0):
                for idx in idxs:
                    for (rows, intr, remrows) in rowopts:
                        for remcols in (0, 1):
                            for mapc in (0, 1):
                                vr = [(0, 0)] if kind == "boundary" else [(1, 0), (0, 1)] if kind == "ru" else [(0, 0), (1, 0), (0, 1)]
                                for (vine, rep) in vr:
                                    c = Cfg(kind, col, z2, idx, rows, intr, remrows, remcols, mapc, 1, vine, rep, maxdim=(remcols ^ z2))
                                    if valid(c):
                                        allc.append(c)
    if tier == "thorough":
        n = 160
    else:
        n = 30
    # stratified choice: every (kind, col) at least once, both fields, all indexings, then random fill
    chosen = {}
    rng.shuffle(allc)
    need = set((k, col) for k in ("boundary", "ru", "chain") for col in COLTYPES)
    for c in allc:
        key = (c.kind, c.d["COLT"])
        if key in need:
            need.discard(key)
            chosen[c.tag] = c
    for c in allc:
        if len(chosen) >= n:
            break
        chosen.setdefault(c.tag, c)
    return list(chosen.values())


# ------------------------------------------------------------------------------------------------ complexes
class Complex:
    """a filtered cell complex: cells in filtration order; boundary refers to earlier cells by local index"""

    def __init__(self):
        self.dims = []
        self.bds = []   # list of list of (cell index, coefficient in Z)
        self.desc = ""


def simplicial(rng, nv=None, nmax=None, maxdim=3):
    nv = nv or rng.randint(3, 6)
    nmax = nmax or rng.randint(1, 4)
    simplices = set()
    for _ in range(nmax):
        k = rng.randint(1, min(nv, maxdim + 1))
        s = tuple(sorted(rng.sample(range(nv), k)))
        for r in range(1, len(s) + 1):
            for f in itertools.combinations(s, r):
                simplices.add(f)
    for v in range(nv):
        if rng.random() < 0.8:
            simplices.add((v,))
    simplices = list(simplices)
    # random filtration order, faces first
    placed = []
    index = {}
    remaining = set(simplices)
    while remaining:
        ready = [s for s in remaining if all((s[:i] + s[i + 1:]) in index for i in range(len(s)) if len(s) > 1)]
        # bias towards low dimension sometimes, otherwise fully random
        if rng.random() < 0.5:
            ready.sort(key=len)
            s = ready[rng.randrange(max(1, len(ready) // 2))]
        else:
            s = rng.choice(sorted(ready))
        index[s] = len(placed)
        placed.append(s)
        remaining.discard(s)
    c = Complex()
    for s in placed:
        c.dims.append(len(s) - 1)
        if len(s) == 1:
            c.bds.append([])
        else:
            c.bds.append(sorted((index[s[:i] + s[i + 1:]], (1 if i % 2 == 0 else -1)) for i in range(len(s))))
    c.desc = "simplicial nv=%d" % nv
    c.names = placed
    return c


def cubical(rng):
    """cells of a small cubical grid (products of points and unit intervals), random faces-first order"""
    shape = [rng.randint(1, 2) for _ in range(rng.randint(1, 3))]
    cells = list(itertools.product(*[range(2 * s + 1) for s in shape]))
    if rng.random() < 0.5:  # drop some top cells (and what only they support stays)
        keep = set()
        tops = [c for c in cells if all(x % 2 == 1 for x in c)]
        tops = rng.sample(tops, max(1, len(tops) - rng.randint(0, 1)))
        for t in tops:
            for f in itertools.product(*[(x - 1, x, x + 1) for x in t]):
                keep.add(f)
        cells = [c for c in cells if c in keep]

    def bd(c):
        out = []
        sign = 1
        for i, x in enumerate(c):
            if x % 2 == 1:
                lo = c[:i] + (x - 1,) + c[i + 1:]
                hi = c[:i] + (x + 1,) + c[i + 1:]
                out.append((hi, sign))
                out.append((lo, -sign))
                sign = -sign
        return out
    placed, index, remaining = [], {}, set(cells)
    while remaining:
        ready = sorted(s for s in remaining if all(f in index for f, _ in bd(s)))
        s = rng.choice(ready)
        index[s] = len(placed)
        placed.append(s)
        remaining.discard(s)
    c = Complex()
    for s in placed:
        c.dims.append(sum(x % 2 for x in s))
        c.bds.append(sorted((index[f], sg) for f, sg in bd(s)))
    c.desc = "cubical %s" % shape
    return c


def cw_torsion(rng):
    """small CW complexes with torsion or several cells per dimension: one vertex, loops a (b), 2-cells attached along words"""
    which = rng.choice(["rp2", "klein", "torus", "zk", "moore2"])
    c = Complex()
    c.dims = [0]
    c.bds = [[]]
    if which == "zk":        # disc attached by a^k : H1 = Z/k
        k = rng.choice([2, 3, 4, 5, 6])
        c.dims += [1, 2]
        c.bds += [[], [(1, k)]]
    elif which == "rp2":
        c.dims += [1, 2]
        c.bds += [[], [(1, 2)]]
    elif which == "torus":   # aba^-1b^-1
        c.dims += [1, 1, 2]
        c.bds += [[], [], []]
    elif which == "klein":   # abab^-1 : boundary 2a
        c.dims += [1, 1, 2]
        c.bds += [[], [], [(1, 2)]]
    else:                     # two discs on one loop: a^2 and a^3
        c.dims += [1, 2, 2]
        c.bds += [[], [(1, 2)], [(1, 3)]]
    c.desc = "cw " + which
    # optionally add a simplicial part after it (disjoint)
    if rng.random() < 0.5:
        s = simplicial(rng, nv=rng.randint(2, 4), nmax=2, maxdim=2)
        off = len(c.dims)
        c.dims += s.dims
        c.bds += [[(i + off, v) for i, v in b] for b in s.bds]
        c.desc += " + " + s.desc
    return c


def from_simplices(rng, simplices, desc):
    """random faces-first filtration order of a closed set of simplices (tuples of vertices)"""
    placed, index, remaining = [], {}, set(simplices)
    while remaining:
        ready = sorted(s for s in remaining if all((s[:i] + s[i + 1:]) in index for i in range(len(s)) if len(s) > 1))
        s = rng.choice(ready)
        index[s] = len(placed)
        placed.append(s)
        remaining.discard(s)
    c = Complex()
    for s in placed:
        c.dims.append(len(s) - 1)
        c.bds.append([] if len(s) == 1 else sorted((index[s[:i] + s[i + 1:]], (1 if i % 2 == 0 else -1)) for i in range(len(s))))
    c.desc = desc
    c.names = placed
    return c


def graph_like(rng, maxcells):
    """a graph with several independent cycles (and sometimes a filled triangle): many positive AND negative edges, so that
    walks of vine swaps meet every combination of signs with non-trivial entries of U"""
    nv = rng.randint(4, 6)
    cells = set((v,) for v in range(nv))
    edges = [(a, b) for a in range(nv) for b in range(a + 1, nv)]
    rng.shuffle(edges)
    ne = rng.randint(nv, min(len(edges), max(nv, maxcells - nv - 1)))
    es = set(edges[:ne])
    cells |= es
    tris = [(a, b, c) for a in range(nv) for b in range(a + 1, nv) for c in range(b + 1, nv) if (a, b) in es and (a, c) in es and (b, c) in es]
    if tris and rng.random() < 0.5 and len(cells) < maxcells:
        cells.add(rng.choice(tris))
    return from_simplices(rng, cells, "graph nv=%d ne=%d" % (nv, ne))


def dense_skeleton(rng):
    """the k-skeleton of a simplex in a random faces-first order: columns are reduced many times by columns sharing
    rows with them (this is what lazily pruned column types - heap - must survive)"""
    nv, k = rng.choice([(5, 2), (5, 3), (6, 2), (6, 3), (7, 2)])
    cells = [s for r in range(1, k + 2) for s in itertools.combinations(range(nv), r)]
    return from_simplices(rng, cells, "skeleton nv=%d k=%d" % (nv, k))


def random_complex(rng, maxcells=26, dense=0.0):
    while True:
        r = rng.random()
        if r < dense:
            return dense_skeleton(rng)
        if r < 0.45:
            c = simplicial(rng)
        elif r < 0.65:
            c = graph_like(rng, maxcells)
        elif r < 0.87:
            c = cubical(rng)
        else:
            c = cw_torsion(rng)
        if len(c.dims) <= maxcells:
            return c


def fresh_ids(rng, n, start=0):
    ids = []
    cur = start
    mode = rng.random()
    for _ in range(n):
        ids.append(cur)
        cur += 1 if mode < 0.4 else rng.randint(1, 4)
    return ids


def fmt_insert(cid, dim, bd, ids, z2, p):
    ents = []
    for (i, v) in sorted(bd, key=lambda t: ids[t[0]]):
        v = v % (2 if z2 else p)
        if v:
            ents.append("%d:%d" % (ids[i], v))
    return "I %d %d %s" % (cid, dim, " ".join(ents))


def script_c05(rng, cx, cfg, p, name):
    """insert in order, dump often, interleave remove_last + re-insertion"""
    z2 = cfg.z2
    n = len(cx.dims)
    ids = fresh_ids(rng, n, start=rng.choice([0, 0, 3, 10]))
    lines = ["CASE " + name, "NEW %d" % (2 if z2 else p)]
    nextid = ids[-1] + 1 if ids else 0
    cur = list(ids)  # current id of each cell index
    k = 0
    dump_every = rng.choice([1, 2, 3])
    inserted = 0
    nrem = 0
    if cfg.kind == "boundary":
        # documented: with only R stored the barcode may be asked for only once the matrix is complete;
        # afterwards only removals are allowed
        for k in range(n):
            lines.append(fmt_insert(cur[k], cx.dims[k], cx.bds[k], cur, z2, p))
        lines.append("DUMP")
        if cfg.can("RL"):
            for _ in range(rng.randint(0, min(4, n))):
                lines.append("RL")
                lines.append("DUMP")
        return lines
    while k < n:
        lines.append(fmt_insert(cur[k], cx.dims[k], cx.bds[k], cur, z2, p))
        k += 1
        inserted += 1
        if inserted % dump_every == 0 or k == n:
            lines.append("DUMP")
        if cfg.can("RL") and k > 0 and nrem < 6 and rng.random() < 0.25:
            r = rng.randint(1, min(3, k))
            for _ in range(r):
                lines.append("RL")
            k -= r
            nrem += 1
            lines.append("DUMP")
            # the removed cells come back with fresh identifiers
            for j in range(k, n):
                cur[j] = nextid
                nextid += rng.randint(1, 3)
    if cfg.can("RL") and rng.random() < 0.5 and n > 1:
        lines.append("RL")
        lines.append("DUMP")
    return lines


# ------------------------------------------------------------------------------------------------ running
def run_cases(ctx, res, cfgs, scripts_for, build_tag_prefix="pm", per_case=False):
    """scripts_for(cfg) -> list of (name, [lines]); returns nothing, fills res"""
    # release builds: with NDEBUG the GUDHI_CHECK conditions (some of which call functions with side effects, e.g. get_pivot()
    # purging lazily erased entries) are not evaluated; PM_NDEBUG=all|none|half (default half: by a CRC of the option-set tag and the parity of VERIF_SEED)
    mode = os.environ.get("PM_NDEBUG", "half")
    def ndebug(c):
        if c.rel is not None:
            return c.rel
        return mode == "all" or (mode == "half" and bool(core.release_flags(c.tag)))
    jobs = [("pm_drv.cpp", c.tag, list(c.flags) + (["-DNDEBUG"] if ndebug(c) and not c.rel else [])) for c in cfgs]
    for c in cfgs:
        res.count("build:" + ("release (NDEBUG)" if ndebug(c) else "debug checks on (GUDHI_DEBUG)"))
    bins = ctx.build_many(jobs)
    orc = ctx.build_oracle("pm")
    work = []
    for c in cfgs:
        sc = scripts_for(c)
        work.append((c, sc))

    def one(item):
        c, sc = item
        text = "\n".join("\n".join(lines) for (_, lines) in sc) + "\n"
        if per_case:
            rc, out, err = 1, "", ""
        else:
            rc, out, err = ctx.run_bin(bins[c.tag], text, timeout=1200)
        crashed = {}
        if rc != 0:
            # something crashed or hangs: run every case in its own process so that the failure is attributed to the
            # history that causes it (a corrupted heap otherwise kills a later, innocent case)
            outs = []
            lost = 0.0          # seconds gone into dying processes of this option set (same idea as core.DEATH_BUDGET_S)
            for (name, lines) in sc:
                if lost > 300:
                    # not a verdict: the slow deaths seen so far are reported; the remaining cases of this option set are not run
                    # (on the unchanged tree this happens in the thorough tier, where the recorded chain findings hang repeatedly)
                    crashed[name] = (-999, "skipped")
                    outs.append("> CASE %s\n" % name)
                    continue
                t1 = time.time()
                rc1, o1, e1 = ctx.run_bin(bins[c.tag], "\n".join(lines) + "\n", timeout=900, cpu=15)
                if rc1 != 0 and time.time() - t1 > 5:      # only slow deaths count (hangs, exhausted memory): recorded crashes die at once
                    lost += time.time() - t1
                if rc1 != 0:
                    crashed[name] = (rc1, (e1 or o1)[-300:])
                    outs.append("> CASE %s\n" % name)
                else:
                    outs.append(o1)
            out = "".join(outs)
            if not crashed and not per_case:
                crashed["<batch>"] = (rc, "the batch of cases fails (rc=%d) although every case passes alone: %s" % (rc, err[-300:]))
        rc2, out2, err2 = ctx.run_bin(orc, out, args=["chain" if c.kind == "chain" else ("ru" if c.kind == "ru" else "boundary"), "ident" if c.d["IDX"] == "IDENTIFIER" else "other"], timeout=900)
        return c, sc, crashed, out, err, rc2, out2, err2
    for (c, sc, crashed, out, err, rc2, out2, err2) in core.parallel_map(one, work):
        res.count("kind:" + c.kind, len(sc))
        res.count("col:" + c.d["COLT"], len(sc))
        res.count("field:" + ("Z2" if c.z2 else "Zp"), len(sc))
        res.count("idx:" + c.d["IDX"], len(sc))
        if rc2 != 0:
            raise core.CheckError("pm oracle failed: " + err2[-1500:])
        # split verdicts per case
        verdicts = {}
        cur = None
        for l in out2.split("\n"):
            if l.startswith("CASE "):
                cur = l[5:]
                verdicts[cur] = []
            elif l and cur is not None:
                verdicts[cur].append(l)
        if "<batch>" in crashed:
            res.violation("%s:batch-crash" % c.kind, "options %s: %s" % (c.tag, crashed["<batch>"][1]),
                          {"options": c.d, "kind": c.kind, "script": [l for (_, ls) in sc for l in ls]})
        for (name, lines) in sc:
            res.evaluations += 1
            v = verdicts.get(name)
            ops = [l.split()[0] for l in lines]
            for o in set(ops):
                res.count("op:" + o, ops.count(o))
            res.distinct.add((c.tag, tuple(lines[1:])))
            if name in crashed and crashed[name][0] == -999:
                res.count("cases not run: 300 s had gone into dying processes of their option set")
                continue
            if name in crashed:
                sit = situation(c, lines)
                rc1, msg = crashed[name]
                res.violation("%s:%s" % (c.kind, sit or ("hang" if rc1 == 124 else "crash")), "the matrix %s (rc=%d) under options %s on case %s: %s" % ("hangs" if rc1 == 124 else "crashed", rc1, c.tag, name, msg),
                              {"options": c.d, "kind": c.kind, "script": lines})
                continue
            if v is None:
                res.violation("%s:no-verdict" % c.kind, "no verdict for case %s under %s" % (name, c.tag), {"options": c.d, "kind": c.kind, "script": lines})
                continue
            res.traces_validated += 1
            vv = []
            for x in v:
                if x.startswith("@"):
                    no, _, rest = x.partition(" ")
                    vv.append((int(no[1:]), rest))
                else:
                    vv.append((len(lines), x))
            fails = [(no, x) for (no, x) in vv if x.startswith("FAIL")]
            res.count("verdict-lines", len(v))
            if fails:
                # a mismatch with the algorithm model alone (every property check passes) is reported as such
                model_only = all(x.startswith("FAIL MODEL") for (_, x) in fails)
                real = [(no, x) for (no, x) in fails if not x.startswith("FAIL MODEL")]
                no, what = (real or fails)[0]
                what = what[5:]
                cat = classify(what)
                sit = situation(c, lines[:no + 1])
                if sit:
                    cat = sit
                # the shortest failing prefix of the history is the replay (commands are numbered from the CASE line)
                if model_only and not sit:
                    res.violation("%s:algorithm-model" % c.kind, "options %s, case %s: the exposed R is a valid reduced decomposition with the "
                                  "canonical pairing but no longer the one the algorithm model (ReduceExec.reduce, standard left-to-right "
                                  "reduction) computes: the correspondence 'R of the implementation = R of the model' no longer checks" % (c.tag, name),
                                  {"options": c.d, "kind": c.kind, "script": lines[:no + 1]}, expected="R = reduce D",
                                  observed=[x for (_, x) in fails[:3]], no_input=True)
                    continue
                res.violation("%s:%s" % (c.kind, cat), "options %s, case %s: %s" % (c.tag, name, what),
                              {"options": c.d, "kind": c.kind, "script": lines[:no + 1]}, expected="all checks OK",
                              observed=[x for (_, x) in fails[:3]])


def classify(what):
    w = what.lower()
    for key, cat in (("barcode differs", "barcode"), ("not reduced", "not-reduced"), ("factor", "RU-identity"), ("chain basis", "chain-identity"),
                     ("vine_swap returned", "swap-value"), ("remove_last", "remove_last"), ("remove_maximal", "remove_maximal"),
                     ("insert_boundary", "insert"), ("pivot", "pivot"), ("not a cycle", "rep-not-cycle"), ("youngest", "rep-birth"),
                     ("representative", "rep"), ("is_zero_column", "is_zero"), ("dimension", "dimension"), ("exception", "exception"),
                     ("oracle", "oracle"), ("number of columns", "ncol")):
        if key in w:
            return cat
    return "other"


def replay_case(ctx, res, replay):
    case = replay["case"]
    c = Cfg(case["kind"], case["options"]["COLT"])
    c.d = dict(case["options"])
    run_cases(ctx, res, [c], lambda cfg: [(case["script"][0][5:], case["script"])])


# ------------------------------------------------------------------------------------------------ C06 / C08 scripts
def grid_vine(rng, tier):
    """option sets with vine updates: RU and chain, all indexings, with and without stored barcode (RU), every column type"""
    allc = []
    for kind in ("ru", "chain"):
        for col in COLTYPES:
            for idx in ("CONTAINER", "POSITION", "IDENTIFIER"):
                for (rows, intr, remrows) in [(0, 1, 0), (1, 1, 0), (1, 0, 1), (1, 1, 1)]:
                    for remcols in (0, 1):
                        for mapc in (0, 1):
                            for pair in (1, 0):
                                c = Cfg(kind, col, 1, idx, rows, intr, remrows, remcols, mapc, pair, 1, 0, maxdim=remcols)
                                if valid(c):
                                    allc.append(c)
    n = 120 if tier == "thorough" else 26
    rng.shuffle(allc)
    chosen = {}
    need = set((k, col) for k in ("ru", "chain") for col in COLTYPES) | set(("idx", k, i) for k in ("ru", "chain") for i in ("CONTAINER", "POSITION", "IDENTIFIER"))
    for c in allc:
        keys = {(c.kind, c.d["COLT"]), ("idx", c.kind, c.d["IDX"])}
        if keys & need and (c.d["REM_COLS"] and c.d["MAPC"] or len(chosen) % 3 == 0):
            need -= keys
            chosen[c.tag] = c
    for c in allc:
        if len(chosen) >= n:
            break
        chosen.setdefault(c.tag, c)
    return list(chosen.values())


def grid_rep(rng, tier):
    allc = []
    for kind in ("ru", "chain"):
        for col in COLTYPES:
            for z2 in (1, 0):
                for idx in ("CONTAINER", "POSITION", "IDENTIFIER"):
                    for (rows, intr, remrows) in [(0, 1, 0), (1, 1, 0), (1, 0, 1)]:
                        for remcols in (0, 1):
                            for mapc in (0, 1):
                                for vine in (0, 1):
                                    c = Cfg(kind, col, z2, idx, rows, intr, remrows, remcols, mapc, 1, vine, 1, maxdim=0)
                                    if valid(c):
                                        allc.append(c)
    n = 100 if tier == "thorough" else 24
    rng.shuffle(allc)
    chosen = {}
    need = set((k, col) for k in ("ru", "chain") for col in COLTYPES)
    for c in allc:
        if (c.kind, c.d["COLT"]) in need:
            need.discard((c.kind, c.d["COLT"]))
            chosen[c.tag] = c
    for c in allc:
        if len(chosen) >= n:
            break
        chosen.setdefault(c.tag, c)
    return list(chosen.values())


def script_walk(rng, cx, cfg, name, steps, with_rep=False, p=2, custom_ids=None):
    """insert everything, then walk in the graph of admissible orders (vine swaps), remove maximal cells, remove_last,
    re-insert; dump after every step.
    Boundary-type matrices index their rows by identifiers that travel with the *positions* when cells are swapped
    (documented), so for them a boundary is written with the row identifier of the position of each face; chain
    matrices index rows by the cell identifiers."""
    z2 = cfg.z2
    mod = 2 if z2 else p
    n = len(cx.dims)
    chain = cfg.kind == "chain"
    if custom_ids is None:
        custom_ids = chain or rng.random() < 0.25
    # boundary-type matrices with vine updates: by default identifier == position at insertion time
    ids = fresh_ids(rng, n, start=rng.choice([0, 0, 0, 5])) if custom_ids else list(range(n))
    lines = ["CASE " + name, "NEW %d" % mod]
    order = []                      # cell indices (into cx) by position
    rowids = []                     # boundary-type: row identifier of each position
    cur = list(ids)                 # identifier under which each cell was (last) inserted
    nextid = (ids[-1] + 1) if ids else 0
    ident = cfg.d["IDX"] == "IDENTIFIER"

    def ins(c):
        ents = []
        for (f, v) in cx.bds[c]:
            v %= mod
            if v:
                ents.append((cur[f] if chain else rowids[order.index(f)], v))
        ents.sort()
        lines.append("I %d %d %s" % (cur[c], cx.dims[c], " ".join("%d:%d" % e for e in ents)))
        order.append(c)
        rowids.append(cur[c])
    for k in range(n):
        ins(k)
    lines.append("DUMP")
    if with_rep:
        lines.append("REP")
    removed = []
    faces = [set(i for i, v in b) for b in cx.bds]
    # option sets without swaps only remove and re-insert: balance the two, so that histories "remove, remove, insert something
    # else, read" are frequent
    rl_thr = 0.9
    for _ in range(steps):
        m = len(order)
        r = rng.random()
        did = False
        if cfg.can("VS") and m >= 2 and r < 0.7:
            cand = [k for k in range(m - 1) if order[k] not in faces[order[k + 1]]]
            if cand:
                same = [k for k in cand if cx.dims[order[k]] == cx.dims[order[k + 1]]]
                k = rng.choice(same) if same and rng.random() < 0.75 else rng.choice(cand)
                lines.append(("VZ %d" if rng.random() < 0.3 else "VS %d") % k)
                order[k], order[k + 1] = order[k + 1], order[k]
                did = True
        elif cfg.can("RM") and m >= 1 and r < 0.8:
            present = set(order)
            maximal = [k for k in range(m) if not any(order[k] in faces[c] for c in present)]
            if maximal:
                k = rng.choice(maximal)
                lines.append("RM %d" % k)
                removed.append(order.pop(k))
                rowids.pop()
                did = True
        elif cfg.can("RL") and m >= 1 and r < rl_thr and not (removed and not cfg.can("VS") and rng.random() < 0.5):
            lines.append("RL")
            removed.append(order.pop())
            rowids.pop()
            did = True
        elif removed:
            present = set(order)
            ok = [c for c in removed if faces[c] <= present]
            if ok:
                c = rng.choice(ok)
                newid = nextid if custom_ids else len(order)
                if custom_ids or not (ident and newid in [cur[x] for x in order]):
                    removed.remove(c)
                    cur[c] = newid
                    nextid = max(nextid, newid) + rng.randint(1, 3)
                    ins(c)
                    did = True
        if did:
            # mostly a full read after every step; sometimes none, so that lazily deferred work (pending row swaps,
            # unpruned columns) is still pending when the next operation starts
            if rng.random() < 0.78:
                lines.append("DUMP")
                if with_rep and rng.random() < 0.6:
                    lines.append("REP")
    if lines[-1] not in ("DUMP", "REP"):
        lines.append("DUMP")
    return lines


def situation(c, lines):
    """recognise the recorded (known-finding) situations from the history itself"""
    n = 0
    order = []
    swapped = False
    custom = False
    insert_after_swap = False
    swaps = 0
    removed_after_swap = False
    reinsert_after_swap_and_removal = False
    rep_while_ids_not_positions = False
    for l in lines:
        w = l.split()
        if not w:
            continue
        if w[0] == "I":
            cid = int(w[1])
            if cid != len(order):
                custom = True
            if order != sorted(order):
                insert_after_swap = True
            if removed_after_swap:
                reinsert_after_swap_and_removal = True
            order.append(cid)
        elif w[0] == "REP":
            if order != list(range(len(order))):
                rep_while_ids_not_positions = True
        elif w[0] in ("VS", "VZ"):
            k = int(w[1])
            swaps += 1
            if k + 1 < len(order):
                order[k], order[k + 1] = order[k + 1], order[k]
        elif w[0] == "RL" and order:
            removed_after_swap = removed_after_swap or swaps > 0
            order.pop()
        elif w[0] == "RM" and order:
            k = int(w[1])
            if k < len(order) - 1:
                swaps += 1          # remove_maximal_cell brings the cell to the end by vine swaps
            removed_after_swap = removed_after_swap or swaps > 0
            if k < len(order):
                order.pop(k)
    if c.kind != "chain" and c.d["VINE"] and custom:
        return "vine-with-identifiers-differing-from-positions"
    if c.kind == "chain" and c.d["VINE"] and insert_after_swap:
        return "insert-after-swap"
    if c.kind == "chain" and c.d["REP"] and (custom or swaps or rep_while_ids_not_positions) and any(l.startswith("REP") for l in lines):
        return "chain-representatives-assume-identifier-equals-position"
    if c.kind != "chain" and c.d["VINE"] and not c.d["PAIR"] and swaps:
        return "vine-without-stored-barcode"
    if c.kind != "chain" and c.d["VINE"] and c.d["IDX"] == "IDENTIFIER" and reinsert_after_swap_and_removal:
        return "identifier-indexing-reinsertion-after-swap-and-removal"
    return None
