#!/bin/sh
# MANIFEST.setup_cmd: build the Coq development (full .vo), the extracted oracles. Offline; files on disk only.
set -e
cd "$(dirname "$0")/coq"
mkdir -p extracted
python3 -c "import sys; sys.path.insert(0, '..'); from vlib import core; core.write_coqproject()"
coq_makefile -f _CoqProject -o Makefile.coq
timeout 7000 make -f Makefile.coq -k -j16 2>&1 | tail -20
cd ..
python3 - <<'PY'
import sys, os
sys.path.insert(0, os.getcwd())
from vlib import core
for f in sorted(os.listdir("ocaml")):
    if f.endswith("_oracle.ml"):
        n = f[:-10]
        try:
            c = core.Ctx(n.upper(), "quick", 1)
            print("oracle", n, c.build_oracle(n))
        except Exception as e:
            print("oracle", n, "FAILED", str(e)[:500])
PY
