#!/usr/bin/env python3
"""c07_xval.py -- cross-validation of zigzag persistence barcodes over Z_2.

Standard library only.  Two mutually independent computations of the interval
decomposition of the zigzag module  H_k(K_0) <-> H_k(K_1) <-> ... <-> H_k(K_{n-1})
of a sequence of single-cell insertions / removals / identity steps, plus cheap
sanity checks, a random generator of valid sequences and a driver that can also
compare against an external oracle.

Input line:   <mode> <dimmax> <shortest> ;op;op;...     (3 header tokens ignored)
  I key dim fv b1 b2 ...   insert cell `key` of dimension dim with Z_2-boundary {b1,b2,..}
  R key fv                 remove cell `key`
  N                        identity step
Arrow i = i-th op (0-based), K_i = complex after arrow i, n = #ops.
Output ("index barcode"): triples (k, b, d); the summand is the interval [b, e] of
indices, d = e+1 if e < n-1 else 'inf'.

METHOD A  (barcode_A)  -- right filtration of Carlsson & de Silva on homology spaces.
  Homology bases: chains are Python ints used as bitsets over cell uids; Z_k by kernel
  tracking, B_k by echelon form, H_k basis = cycles that do not reduce to 0 modulo B_k.
  The decomposition keeps an ORDERED basis w_1..w_d of V_i with a birth label b_j for
  each w_j; F_j = span(w_1..w_j) is a complete flag refining the right filtration
  R(V_0<->...<->V_i) and consecutive quotients carry the birth labels.
    start      : V_0, every basis vector has birth 0 (V_{-1}=0 conceptually).
    forward  f : V_i -> V_{i+1} (insertion, or N):
                 go through j = 1..d in order; if f(w_j) lies in span(f(w_1..w_{j-1}))
                 then the interval [b_j, i] is closed (dies at arrow i+1); otherwise f(w_j)
                 is kept, in the same relative order, with the same birth b_j.  After all
                 of them, a complement of f(V_i) in V_{i+1} is appended, birth i+1.
                 (new filtration = f(R_1) <= f(R_2) <= ... <= f(R_m) <= V_{i+1}.)
    backward g : V_{i+1} -> V_i (removal):
                 the new ordered basis of V_{i+1} starts with a basis of ker g, birth i+1,
                 followed, for j = 1..d in order, by one vector p_j with
                 g(p_j) in F_j \\ F_{j-1} whenever such a vector exists (same birth b_j);
                 if there is none (i.e. (F_j ^ im g) = (F_{j-1} ^ im g), equivalently
                 w_j not in F_{j-1}+im g) then [b_j, i] is closed (dies at arrow i+1).
                 (new filtration = g^-1(0) <= g^-1(R_1) <= ... <= g^-1(R_m).)
    end        : every remaining w_j gives [b_j, n-1]  (d = inf).

METHOD B  (barcode_B)  -- generalised rank invariant straight from the definition.
  Uses its OWN homology computation (chains are frozensets of cell ids, persistence-style
  R = D V column reduction, H basis = V-columns of unpaired positive cells) and then for
  every 0<=b<=e<=n-1
     r(b,e) = rank( lim V|[b,e] -> colim V|[b,e] )
            = rank(Rel + pi_b(L)) - rank(Rel)
  where L = the space of compatible families (nullspace of one big linear system),
  pi_b(L) = their b-components placed into (+)V_i, Rel = span of v - image(v).
  Multiplicity of [b,e] = r(b,e) - r(b-1,e) - r(b,e+1) + r(b-1,e+1), r=0 out of range.

METHOD C  (checks_C) -- for every i,k  #intervals containing i == beta_k(K_i) computed as
  c_k - rank d_k - rank d_{k+1}; for insertion-only sequences the barcode must equal the
  standard persistence pairing (own column reduction).

GENERATOR (gen_case): flavours simp (<=6 vertices, simplices up to dim 3), cube (elementary
  cubes of small grids, up to one or two 3-cubes), cell (simplices + loop edges with empty
  boundary, parallel edges, polygons bounded by a simple edge cycle, discs on a loop edge,
  cells bounded by an arbitrary Z_2-cycle).  Removal of maximal cells, re-insertion under a new
  or a recycled key, N steps, <=30 arrows, keys sequential / small signed / large signed.

Driver:  --gen N --seed S | --cases FILE  [--dump FILE] [--oracle BIN] [--drvnv BIN]
         [--maxB n (default 14; B is fast enough for 30)] [--flavor simp|cell|cube] [--nmax n]
Every line 'DISAGREE <what> :: <case line>' is a finding; last line is the summary
'cases=... disagreements=...'; exit status 1 iff there is a disagreement.
"""
import sys
import random
import argparse
import subprocess
from collections import Counter

INF = 'inf'


# ----------------------------------------------------------------------------
# parsing / formatting
# ----------------------------------------------------------------------------
def parse_case(line):
    """-> list of ops: ('I', key, dim, (b1,b2,..), fv) | ('R', key, fv) | ('N',)"""
    parts = line.strip().split(';')
    ops = []
    for p in parts[1:]:
        t = p.split()
        if not t:
            continue
        if t[0] == 'I':
            ops.append(('I', int(t[1]), int(t[2]), tuple(int(x) for x in t[4:]), t[3]))
        elif t[0] == 'R':
            ops.append(('R', int(t[1]), t[2] if len(t) > 2 else '0'))
        elif t[0] == 'N':
            ops.append(('N',))
        else:
            raise ValueError('bad op %r' % p)
    return ops


def format_case(ops, header='Z -1 0'):
    out = [header + ' ']
    for op in ops:
        if op[0] == 'I':
            s = 'I %d %d %s' % (op[1], op[2], op[4] if len(op) > 4 else '0')
            if op[3]:
                s += ' ' + ' '.join(str(b) for b in op[3])
            out.append(s)
        elif op[0] == 'R':
            out.append('R %d %s' % (op[1], op[2] if len(op) > 2 else '0'))
        else:
            out.append('N')
    return ';'.join(out)


def _dkey(t):
    return (t[0], t[1], 1 << 60 if t[2] == INF else t[2])


def _to_triples(ints_by_dim, n):
    res = []
    for k, lst in ints_by_dim.items():
        for (b, e) in lst:
            res.append((k, b, e + 1 if e < n - 1 else INF))
    res.sort(key=_dkey)
    return res


# ----------------------------------------------------------------------------
# METHOD A, part 1: homology spaces and induced maps with bitset chains
# ----------------------------------------------------------------------------
def _resolve_bits(ops):
    """uids = insertion arrow numbers.  Returns (n, cdim, cbnd, present_after) where
    cdim[uid], cbnd[uid] = boundary bitmask, present_after[i] = frozenset of uids."""
    cur = {}            # key -> uid
    cdim, cbnd = {}, {}
    cof = Counter()     # uid -> number of present cofaces
    pres = []
    for i, op in enumerate(ops):
        if op[0] == 'I':
            key, d, bnd = op[1], op[2], op[3]
            if key in cur:
                raise ValueError('arrow %d: key %d already present' % (i, key))
            m = 0
            for b in bnd:
                if b not in cur:
                    raise ValueError('arrow %d: boundary key %d absent' % (i, b))
                u = cur[b]
                if cdim[u] != d - 1:
                    raise ValueError('arrow %d: boundary cell %d has wrong dim' % (i, b))
                if m >> u & 1:
                    raise ValueError('arrow %d: repeated boundary key %d' % (i, b))
                m |= 1 << u
                cof[u] += 1
            # d d = 0 ?
            dd = 0
            for b in bnd:
                dd ^= cbnd[cur[b]]
            if dd:
                raise ValueError('arrow %d: boundary of boundary non zero' % i)
            cur[key] = i
            cdim[i] = d
            cbnd[i] = m
        elif op[0] == 'R':
            key = op[1]
            if key not in cur:
                raise ValueError('arrow %d: key %d absent' % (i, key))
            u = cur[key]
            if cof[u]:
                raise ValueError('arrow %d: key %d not maximal' % (i, key))
            mm = cbnd[u]
            while mm:
                p = mm.bit_length() - 1
                mm ^= 1 << p
                cof[p] -= 1
            del cur[key]
        pres.append(frozenset(cur.values()))
    return len(ops), cdim, cbnd, pres


def _homology_bits(K, cdim, cbnd, dims):
    """For each k in dims: (ech, hdim), ech: pivot -> (cycle vector, coords of its class).
    ech is an echelon basis of Z_k(K) whose B_k part carries coords 0."""
    by = {}
    for u in sorted(K):
        by.setdefault(cdim[u], []).append(u)
    res = {}
    for k in dims:
        piv = {}
        cycles = []
        for u in by.get(k, []):
            col, tr = cbnd[u], 1 << u
            while col:
                p = col.bit_length() - 1
                if p in piv:
                    c, t = piv[p]
                    col ^= c
                    tr ^= t
                else:
                    piv[p] = (col, tr)
                    break
            if not col:
                cycles.append(tr)
        ech = {}
        for u in by.get(k + 1, []):
            v = cbnd[u]
            while v:
                p = v.bit_length() - 1
                if p in ech:
                    v ^= ech[p][0]
                else:
                    ech[p] = (v, 0)
                    break
        h = 0
        for z in cycles:
            v = z
            while v:
                p = v.bit_length() - 1
                if p in ech:
                    v ^= ech[p][0]
                else:
                    ech[p] = (v, 1 << h)   # the reduced cycle v is the h-th basis representative
                    h += 1
                    break
        res[k] = (ech, h)
    return res


def _coords_bits(z, ech):
    t = 0
    while z:
        p = z.bit_length() - 1
        if p not in ech:
            raise AssertionError('chain is not a cycle of the target complex')
        c, tt = ech[p]
        z ^= c
        t ^= tt
    return t


def _reps_bits(ech, h):
    """representatives of the H basis: the echelon vectors created with tag 1<<j (boundaries
    have tag 0; tags never change after creation)."""
    reps = [None] * h
    for p, (v, t) in ech.items():
        if t:
            reps[t.bit_length() - 1] = v
    return reps


def module_bits(ops, n_as='f'):
    """-> (n, {k: (dims, arrows)}), dims[i] = dim H_k(K_i), arrows[i] = (dir, cols) for the map
    between V_i and V_{i+1}: dir 'f': cols[j] = image in V_{i+1} of j-th basis vector of V_i,
    dir 'b': cols[j] = image in V_i of j-th basis vector of V_{i+1}.  Vectors are bitmasks."""
    n, cdim, cbnd, pres = _resolve_bits(ops)
    alld = sorted(set(cdim.values())) or [0]
    ks = list(range(0, max(alld) + 1))
    H = [_homology_bits(K, cdim, cbnd, ks) for K in pres]
    mod = {}
    for k in ks:
        dims = [H[i][k][1] for i in range(n)]
        arrows = []
        for i in range(n - 1):
            op = ops[i + 1]
            if op[0] == 'I' or (op[0] == 'N' and n_as == 'f'):
                src, dst, d = H[i][k], H[i + 1][k], 'f'
            else:
                src, dst, d = H[i + 1][k], H[i][k], 'b'
            reps = _reps_bits(*src)
            arrows.append((d, [_coords_bits(z, dst[0]) for z in reps]))
        mod[k] = (dims, arrows)
    return n, mod


# ----------------------------------------------------------------------------
# METHOD A, part 2: right-filtration decomposition of a zigzag of Z_2 vector spaces
# ----------------------------------------------------------------------------
def _apply(cols, v):
    r = 0
    while v:
        p = v.bit_length() - 1
        v ^= 1 << p
        r ^= cols[p]
    return r


def zz_right_filtration(dims, arrows):
    """-> list of intervals (b, e)."""
    n = len(dims)
    W = [(1 << j, 0) for j in range(dims[0])]
    out = []
    for i in range(n - 1):
        d, cols = arrows[i]
        if d == 'f':
            assert len(cols) == dims[i]
            ech = {}
            newW = []
            for (w, b) in W:
                img = _apply(cols, w)
                r = img
                while r:
                    p = r.bit_length() - 1
                    if p in ech:
                        r ^= ech[p]
                    else:
                        ech[p] = r
                        break
                if r:
                    newW.append((img, b))
                else:
                    out.append((b, i))
            for j in range(dims[i + 1]):
                r = 1 << j
                while r:
                    p = r.bit_length() - 1
                    if p in ech:
                        r ^= ech[p]
                    else:
                        ech[p] = r
                        break
                if r:
                    newW.append((1 << j, i + 1))
            W = newW
        else:
            assert len(cols) == dims[i + 1]
            # coordinates with respect to the ordered basis W of V_i
            wech = {}
            for idx, (w, b) in enumerate(W):
                v, t = w, 1 << idx
                while v:
                    p = v.bit_length() - 1
                    if p in wech:
                        v ^= wech[p][0]
                        t ^= wech[p][1]
                    else:
                        wech[p] = (v, t)
                        break
                assert v, 'W is not a basis'
            ech = {}     # leading W-index -> (image in W-coordinates, preimage in V_{i+1})
            ker = []
            for j in range(dims[i + 1]):
                x, v = cols[j], 0
                while x:
                    p = x.bit_length() - 1
                    c, tt = wech[p]
                    x ^= c
                    v ^= tt
                pre = 1 << j
                while v:
                    p = v.bit_length() - 1
                    if p in ech:
                        v ^= ech[p][0]
                        pre ^= ech[p][1]
                    else:
                        ech[p] = (v, pre)
                        break
                if not v:
                    ker.append(pre)
            newW = [(x, i + 1) for x in ker]
            for idx, (w, b) in enumerate(W):
                if idx in ech:
                    newW.append((ech[idx][1], b))
                else:
                    out.append((b, i))
            W = newW
        assert len(W) == dims[i + 1], 'filtration basis has wrong size'
    for (w, b) in W:
        out.append((b, n - 1))
    return out


def barcode_A(ops, n_as='f'):
    n, mod = module_bits(ops, n_as)
    if n == 0:
        return []
    return _to_triples({k: zz_right_filtration(*mod[k]) for k in mod}, n)


# ----------------------------------------------------------------------------
# METHOD B, part 1: independent homology computation with frozenset chains
# ----------------------------------------------------------------------------
def _sym(a, b):
    return a ^ b   # frozenset symmetric difference


def _homology_sets(cells, bnd):
    """cells: sorted list of cell ids of a complex (faces have smaller ids), bnd[id] = frozenset.
    Persistence-style reduction R = D V.  Returns (Rlow, Vun): Rlow: low -> reduced nonzero
    column (a boundary), Vun: unpaired positive cell -> V-column (cycle whose max is that cell)."""
    Rlow = {}
    Vpos = {}
    for c in cells:
        r = bnd[c]
        v = frozenset([c])
        while r:
            l = max(r)
            if l in Rlow:
                rr, vv = Rlow[l]
                r = _sym(r, rr)
                v = _sym(v, vv)
            else:
                break
        if r:
            Rlow[max(r)] = (r, v)
        else:
            Vpos[c] = v
    Vun = {c: v for c, v in Vpos.items() if c not in Rlow}
    return {l: rv[0] for l, rv in Rlow.items()}, Vun


def _coords_sets(z, Rlow, Vun, index):
    """coordinates (bitmask via index: cell -> position) of the class of the cycle z."""
    t = 0
    while z:
        m = max(z)
        if m in Rlow:
            z = _sym(z, Rlow[m])
        elif m in Vun:
            z = _sym(z, Vun[m])
            t ^= 1 << index[m]
        else:
            raise AssertionError('not a cycle in target complex')
    return t


def module_sets(ops, n_as='b'):
    """Same output format as module_bits, computed independently."""
    n = len(ops)
    cur = {}
    cdim, bnd = {}, {}
    comps = []
    for i, op in enumerate(ops):
        if op[0] == 'I':
            bnd[i] = frozenset(cur[b] for b in op[3])
            assert len(bnd[i]) == len(op[3])
            cdim[i] = op[2]
            assert op[1] not in cur
            cur[op[1]] = i
        elif op[0] == 'R':
            del cur[op[1]]
        comps.append(sorted(cur.values()))
    kmax = max(cdim.values()) if cdim else 0
    Hs = []
    for cells in comps:
        Rlow, Vun = _homology_sets(cells, bnd)
        per = {}
        for k in range(kmax + 1):
            bas = sorted(c for c in Vun if cdim[c] == k)
            per[k] = (bas, {c: j for j, c in enumerate(bas)})
        Hs.append((Rlow, Vun, per))
    mod = {}
    for k in range(kmax + 1):
        dims = [len(Hs[i][2][k][0]) for i in range(n)]
        arrows = []
        for i in range(n - 1):
            op = ops[i + 1]
            if op[0] == 'I' or (op[0] == 'N' and n_as == 'f'):
                s, t, d = i, i + 1, 'f'
            else:
                s, t, d = i + 1, i, 'b'
            Rl, Vu, per = Hs[t]
            cols = [_coords_sets(Hs[s][1][c], Rl, Vu, per[k][1]) for c in Hs[s][2][k][0]]
            arrows.append((d, cols))
        mod[k] = (dims, arrows)
    return n, mod


# ----------------------------------------------------------------------------
# METHOD B, part 2: generalised rank over every interval
# ----------------------------------------------------------------------------
def _rank(vecs):
    ech = {}
    for v in vecs:
        while v:
            p = v.bit_length() - 1
            if p in ech:
                v ^= ech[p]
            else:
                ech[p] = v
                break
    return len(ech)


def gen_rank(dims, arrows, b, e):
    """rank of lim V|[b,e] -> colim V|[b,e]."""
    off = {}
    N = 0
    for i in range(b, e + 1):
        off[i] = N
        N += dims[i]
    if dims[b] == 0:
        return 0
    # linear system for compatible families: one block of equations per arrow
    colmask = [0] * N        # for each variable, the set of equations it appears in
    rel = []                 # relations of the colimit, as vectors of Z_2^N
    E = 0
    for i in range(b, e):
        d, cols = arrows[i]
        if d == 'f':
            s, t = i, i + 1
        else:
            s, t = i + 1, i
        # equations (one per coordinate of V_t):   M v_s + v_t = 0
        for j in range(dims[s]):
            colmask[off[s] + j] ^= cols[j] << E
            rel.append((1 << (off[s] + j)) ^ (cols[j] << off[t]))
        for j in range(dims[t]):
            colmask[off[t] + j] ^= 1 << (E + j)
        E += dims[t]
    # nullspace by kernel tracking
    piv = {}
    L = []
    for x in range(N):
        col, tr = colmask[x], 1 << x
        while col:
            p = col.bit_length() - 1
            if p in piv:
                col ^= piv[p][0]
                tr ^= piv[p][1]
            else:
                piv[p] = (col, tr)
                break
        if not col:
            L.append(tr)
    maskb = ((1 << dims[b]) - 1) << off[b]
    proj = [l & maskb for l in L]
    return _rank(rel + proj) - _rank(rel)


def zz_generalised_rank(dims, arrows):
    n = len(dims)
    r = {}
    for b in range(n):
        for e in range(b, n):
            r[(b, e)] = gen_rank(dims, arrows, b, e)

    def R(b, e):
        if b < 0 or e > n - 1:
            return 0
        return r[(b, e)]
    out = []
    for b in range(n):
        for e in range(b, n):
            m = R(b, e) - R(b - 1, e) - R(b, e + 1) + R(b - 1, e + 1)
            if m < 0:
                raise AssertionError('negative multiplicity for [%d,%d]' % (b, e))
            out.extend([(b, e)] * m)
    return out


def barcode_B(ops, n_as='b', own_homology=True):
    n, mod = module_sets(ops, n_as) if own_homology else module_bits(ops, n_as)
    if n == 0:
        return []
    return _to_triples({k: zz_generalised_rank(*mod[k]) for k in mod}, n)


# ----------------------------------------------------------------------------
# METHOD C: Betti numbers by ranks, standard persistence for insertion-only input
# ----------------------------------------------------------------------------
def betti_table(ops):
    """list over i of dict k -> beta_k(K_i), from ranks of boundary matrices only."""
    n, cdim, cbnd, pres = _resolve_bits(ops)
    kmax = max(cdim.values()) if cdim else 0
    tab = []
    for K in pres:
        cnt = Counter(cdim[u] for u in K)
        rk = {k: _rank([cbnd[u] for u in K if cdim[u] == k]) for k in range(kmax + 2)}
        tab.append({k: cnt[k] - rk[k] - rk[k + 1] for k in range(kmax + 1)})
    return tab


def standard_persistence(ops):
    """insertion-only (N allowed): classical pairing by column reduction; returns triples."""
    n, cdim, cbnd, pres = _resolve_bits(ops)
    low = {}
    paired, neg = set(), set()
    res = []
    for i, op in enumerate(ops):
        if op[0] != 'I':
            continue
        col = cbnd[i]
        while col:
            p = col.bit_length() - 1
            if p in low:
                col ^= low[p]
            else:
                low[p] = col
                break
        if col:
            p = col.bit_length() - 1
            paired.add(p)
            neg.add(i)
            res.append((cdim[p], p, i))
    for i, op in enumerate(ops):
        if op[0] == 'I' and i not in paired and i not in neg:
            res.append((cdim[i], i, INF))
    res.sort(key=_dkey)
    return res


def checks_C(ops, bars):
    """-> list of problem strings (empty if fine)."""
    probs = []
    n = len(ops)
    tab = betti_table(ops)
    cnt = [Counter() for _ in range(n)]
    for (k, b, d) in bars:
        hi = n if d == INF else d
        if not (0 <= b < hi <= n):
            probs.append('bad interval %r' % ((k, b, d),))
            continue
        for i in range(b, hi):
            cnt[i][k] += 1
    for i in range(n):
        ks = set(tab[i]) | set(cnt[i])
        for k in ks:
            if tab[i].get(k, 0) != cnt[i].get(k, 0):
                probs.append('betti mismatch at i=%d k=%d: betti=%d intervals=%d'
                             % (i, k, tab[i].get(k, 0), cnt[i].get(k, 0)))
    if all(op[0] != 'R' for op in ops):
        sp = standard_persistence(ops)
        if Counter(sp) != Counter(bars):
            probs.append('standard persistence differs: %s' % fmt_bars(sp))
    return probs


def fmt_bars(bars):
    if not bars:
        return '-'
    return ';'.join('%d,%d,%s' % t for t in sorted(bars, key=_dkey))


def parse_bars(tok):
    if tok in ('-', ''):
        return []
    res = []
    for t in tok.split(';'):
        if not t:
            continue
        k, b, d = t.split(',')
        res.append((int(k), int(b), INF if d == INF else int(d)))
    return res


# ----------------------------------------------------------------------------
# random generator of valid sequences
# ----------------------------------------------------------------------------
def _simp_universe(nv, maxdim=3):
    from itertools import combinations
    U = {}
    for s in range(1, maxdim + 2):
        for c in combinations(range(nv), s):
            U[('s',) + c] = (s - 1, [('s',) + f for f in combinations(c, s - 1)] if s > 1 else [])
    return U


def _cube_universe(shape):
    """elementary cubes of a grid with shape[a] vertices along axis a."""
    from itertools import product
    axes = []
    for m in shape:
        a = [(x, x) for x in range(m)] + [(x, x + 1) for x in range(m - 1)]
        axes.append(a)
    U = {}
    for cell in product(*axes):
        dim = sum(1 for (lo, hi) in cell if hi != lo)
        faces = []
        for a, (lo, hi) in enumerate(cell):
            if hi != lo:
                faces.append(('c',) + cell[:a] + ((lo, lo),) + cell[a + 1:])
                faces.append(('c',) + cell[:a] + ((hi, hi),) + cell[a + 1:])
        U[('c',) + cell] = (dim, faces)
    return U


def gen_case(rng, flavor=None, nmax=None):
    """-> ops of a random valid sequence.  flavor in simp|cell|cube (random if None)."""
    if flavor is None:
        flavor = rng.choice(['simp', 'simp', 'simp', 'cell', 'cell', 'cube'])
    if nmax is None:
        nmax = rng.randint(1, 12) if rng.random() < 0.55 else rng.randint(13, 30)
    if flavor == 'cube':
        shape = rng.choice([(2, 2, 2), (2, 2, 2), (3, 2, 1), (2, 2, 1), (3, 3, 1), (3, 2, 2)])
        U = _cube_universe(shape)
    else:
        U = _simp_universe(rng.choice([2, 3, 3, 4, 4, 4, 5, 5, 6]), rng.choice([1, 2, 2, 3, 3, 3]))
    p_rem = rng.choice([0.0, 0.15, 0.3, 0.3, 0.45, 0.5, 0.6])
    p_n = rng.choice([0.0, 0.0, 0.05, 0.1, 0.2])
    # first `grow` arrows are insertions only (lets tetrahedra / cubes appear within 30 arrows)
    grow = rng.choice([0, 0, nmax // 3, nmax // 2, (2 * nmax) // 3, nmax - 3])
    if flavor == 'cube' and rng.random() < 0.5:
        nmax = max(nmax, rng.randint(20, 30))
        grow = nmax - rng.randint(1, 4)
    hi_bias = rng.choice([0.7, 1.5, 3.0])
    p_dyn = rng.choice([0.1, 0.2, 0.35]) if flavor == 'cell' else 0.0
    p_reuse = rng.choice([0.0, 0.2, 0.5])
    keystyle = rng.choice(['seq', 'seq', 'small', 'big'])
    used_now = set()
    ever = []
    nextseq = [rng.choice([0, 1, 10, 100])]

    def newkey():
        free = [k for k in ever if k not in used_now]
        if free and rng.random() < p_reuse:
            return rng.choice(free)
        while True:
            if keystyle == 'seq':
                k = nextseq[0]
                nextseq[0] += 1
            elif keystyle == 'small':
                k = rng.randint(-60, 60)
            else:
                k = rng.randint(-2000000000, 2000000000)
            if k not in used_now and k not in ever:
                return k

    present = {}   # key -> [dim, bnd keys tuple, name]
    byname = {}
    ncof = Counter()
    ops = []
    fv = 0
    dyn = [0]

    def insert(name, dim, bkeys):
        k = newkey()
        used_now.add(k)
        if k not in ever:
            ever.append(k)
        present[k] = [dim, tuple(bkeys), name]
        byname[name] = k
        for b in bkeys:
            ncof[b] += 1
        ops.append(('I', k, dim, tuple(bkeys), str(fv)))

    def dynamic_cell():
        """try to create a non-simplicial cell; returns True on success."""
        kind = rng.choice(['loop', 'multi', 'poly', 'poly', 'poly', 'lpoly', 'ball', 'ball'])
        dyn[0] += 1
        name = ('d', dyn[0], len(ops))
        verts = [k for k, c in present.items() if c[0] == 0]
        edges = [k for k, c in present.items() if c[0] == 1 and len(c[1]) == 2]
        if kind == 'loop':
            insert(name, 1, ())
            return True
        if kind == 'lpoly':
            # disc glued on a loop edge (edge with empty boundary): boundary = that single edge
            loops = [k for k, c in present.items() if c[0] == 1 and len(c[1]) == 0]
            if not loops:
                return False
            insert(name, 2, [rng.choice(loops)])
            return True
        if kind == 'multi':
            if len(verts) < 2:
                return False
            insert(name, 1, rng.sample(verts, 2))
            return True
        if kind == 'poly':
            if not edges:
                return False
            e0 = rng.choice(edges)
            u, v = present[e0][1]
            # random path from v to u avoiding e0
            adj = {}
            for e in edges:
                if e == e0:
                    continue
                a, b = present[e][1]
                adj.setdefault(a, []).append((b, e))
                adj.setdefault(b, []).append((a, e))
            prev = {v: None}
            front = [v]
            while front and u not in prev:
                x = front.pop(rng.randrange(len(front)))
                nb = adj.get(x, [])[:]
                rng.shuffle(nb)
                for (y, e) in nb:
                    if y not in prev:
                        prev[y] = (x, e)
                        front.append(y)
            if u not in prev:
                return False
            cyc = [e0]
            x = u
            while prev[x] is not None:
                x, e = prev[x]
                cyc.append(e)
            rng.shuffle(cyc)
            insert(name, 2, cyc)
            return True
        if kind == 'ball':
            # 3-cell (or 2-cell) bounded by a random Z_2-cycle of 2-cells (1-cells)
            kd = rng.choice([2, 2, 1])
            cells = sorted(k for k, c in present.items() if c[0] == kd)
            if not cells:
                return False
            idx = {k: j for j, k in enumerate(sorted(present))}
            piv, cycles = {}, []
            for k in cells:
                col, tr = 0, 1 << idx[k]
                for b in present[k][1]:
                    col ^= 1 << idx[b]
                while col:
                    p = col.bit_length() - 1
                    if p in piv:
                        col ^= piv[p][0]
                        tr ^= piv[p][1]
                    else:
                        piv[p] = (col, tr)
                        break
                if not col:
                    cycles.append(tr)
            if not cycles:
                return False
            z = 0
            for c in rng.sample(cycles, min(len(cycles), rng.choice([1, 1, 2]))):
                z ^= c
            inv = sorted(present)
            bk = [inv[j] for j in range(len(inv)) if z >> j & 1]
            rng.shuffle(bk)
            if not bk:
                return False
            insert(name, kd + 1, bk)
            return True
        return False

    guard = 0
    while len(ops) < nmax and guard < 10 * nmax + 50:
        guard += 1
        if rng.random() < 0.6:
            fv += rng.choice([0, 1, 1, 2])
        x = rng.random()
        growing = len(ops) < grow
        if x < p_n and ops and not growing:
            ops.append(('N',))
            continue
        x = rng.random()
        if x < p_rem and present and not growing:
            cand = [k for k in present if ncof[k] == 0]
            if cand:
                # prefer recently inserted / high-dimensional sometimes
                k = rng.choice(cand)
                for b in present[k][1]:
                    ncof[b] -= 1
                byname.pop(present[k][2], None)
                del present[k]
                used_now.discard(k)
                ops.append(('R', k, str(fv)))
                continue
        if p_dyn and rng.random() < p_dyn and present:
            if dynamic_cell():
                continue
        cand = {}
        for name, (dim, faces) in U.items():
            if name not in byname and all(f in byname for f in faces):
                cand.setdefault(dim, []).append(name)
        if not cand:
            if not present:
                break
            continue
        ds = sorted(cand)
        # bias toward higher dimension when available so that cycles get filled
        wts = [1.0 + hi_bias * d for d in ds]
        dsel = rng.choices(ds, wts)[0]
        name = rng.choice(cand[dsel])
        insert(name, dsel, [byname[f] for f in U[name][1]])
    return ops


# ----------------------------------------------------------------------------
# external programs
# ----------------------------------------------------------------------------
def run_oracle(path, lines, timeout=600):
    """feeds 'G' + case lines; returns list of bars (or None when unparsable) per case."""
    inp = 'G\n' + '\n'.join(lines) + '\n'
    p = subprocess.run([path], input=inp, stdout=subprocess.PIPE, stderr=subprocess.PIPE,
                       universal_newlines=True, timeout=timeout)
    outl = p.stdout.split('\n')
    if outl and outl[-1] == '':
        outl.pop()
    ans = outl[1:]
    res = []
    for i in range(len(lines)):
        if i >= len(ans):
            res.append((None, '<no answer line; rc=%s>' % p.returncode))
            continue
        bars = None
        for tok in ans[i].split():
            if tok.startswith('bars='):
                try:
                    bars = parse_bars(tok[5:])
                except Exception:
                    bars = None
        res.append((bars, ans[i]))
    return res


def run_drvnv(path, lines, timeout=600):
    """reference driver format: segments '<arrow> s=<..> o=<..>' separated by ' | '."""
    inp = 'G\n' + '\n'.join(lines) + '\n'
    p = subprocess.run([path], input=inp, stdout=subprocess.PIPE, stderr=subprocess.PIPE,
                       universal_newlines=True, timeout=timeout)
    outl = p.stdout.split('\n')
    if outl and outl[-1] == '':
        outl.pop()
    ans = outl[1:]
    res = []
    for i in range(len(lines)):
        if i >= len(ans):
            res.append((None, '<no answer line; rc=%s>' % p.returncode))
            continue
        try:
            bars = []
            segs = [s.strip() for s in ans[i].split('|')]
            last_open = '-'
            for s in segs:
                if not s:
                    continue
                toks = s.split()
                for t in toks[1:]:
                    if t.startswith('s='):
                        bars.extend(parse_bars(t[2:]))
                    elif t.startswith('o='):
                        last_open = t[2:]
            if last_open != '-':
                for t in last_open.split(';'):
                    if t:
                        k, b = t.split(',')
                        bars.append((int(k), int(b), INF))
            res.append((bars, ans[i]))
        except Exception as ex:
            res.append((None, ans[i] + ' <parse error %s>' % ex))
    return res


# ----------------------------------------------------------------------------
# driver
# ----------------------------------------------------------------------------
def main(argv=None):
    ap = argparse.ArgumentParser()
    ap.add_argument('--gen', type=int, default=0)
    ap.add_argument('--seed', type=int, default=1)
    ap.add_argument('--cases')
    ap.add_argument('--dump')
    ap.add_argument('--oracle')
    ap.add_argument('--drvnv')
    ap.add_argument('--maxB', type=int, default=14, help='run method B when n <= maxB')
    ap.add_argument('--nmax', type=int, default=None, help='force max number of arrows')
    ap.add_argument('--flavor', default=None)
    ap.add_argument('--noA2', action='store_true', help='skip the N-as-backward rerun of A')
    ap.add_argument('-v', action='store_true')
    a = ap.parse_args(argv)

    lines = []
    if a.cases:
        with open(a.cases) as f:
            for l in f:
                l = l.strip()
                if l and ';' in l:
                    lines.append(l)
    if a.gen:
        rng = random.Random(a.seed)
        for _ in range(a.gen):
            lines.append(format_case(gen_case(rng, a.flavor, a.nmax)))
    if a.dump:
        with open(a.dump, 'w') as f:
            for l in lines:
                f.write(l + '\n')

    dis = []
    nB = nC = nStd = nA2 = 0
    barsA = []
    for l in lines:
        try:
            ops = parse_case(l)
            A = barcode_A(ops)
        except Exception as ex:
            dis.append(('A-failed %r' % ex, l))
            barsA.append(None)
            continue
        barsA.append(A)
        if not a.noA2 and any(op[0] == 'N' for op in ops):
            nA2 += 1
            A2 = barcode_A(ops, n_as='b')
            if Counter(A2) != Counter(A):
                dis.append(('A(N forward)=%s A(N backward)=%s' % (fmt_bars(A), fmt_bars(A2)), l))
        if len(ops) <= a.maxB:
            nB += 1
            try:
                B = barcode_B(ops)
                if Counter(A) != Counter(B):
                    dis.append(('A=%s B=%s' % (fmt_bars(A), fmt_bars(B)), l))
            except Exception as ex:
                dis.append(('B-failed %r' % ex, l))
        pr = checks_C(ops, A)
        nC += 1
        if all(op[0] != 'R' for op in ops):
            nStd += 1
        for p in pr:
            dis.append(('C: %s (A=%s)' % (p, fmt_bars(A)), l))
        if a.v:
            print('%s  A=%s' % (l, fmt_bars(A)))
    nO = 0
    for (path, runner, nm) in ((a.oracle, run_oracle, 'oracle'), (a.drvnv, run_drvnv, 'drvnv')):
        if not path:
            continue
        try:
            res = runner(path, lines)
        except Exception as ex:
            dis.append(('%s run failed: %r' % (nm, ex), ''))
            continue
        for l, A, (bars, raw) in zip(lines, barsA, res):
            if A is None:
                continue
            nO += 1
            if bars is None:
                dis.append(('%s gave no bars: %s' % (nm, raw[:200]), l))
            elif Counter(bars) != Counter(A):
                dis.append(('A=%s %s=%s' % (fmt_bars(A), nm, fmt_bars(bars)), l))
    for (what, l) in dis:
        print('DISAGREE %s :: %s' % (what, l))
    print('cases=%d checkedB=%d checkedC=%d insertion_only=%d checkedA_Nback=%d external=%d disagreements=%d'
          % (len(lines), nB, nC, nStd, nA2, nO, len(dis)))
    return 1 if dis else 0


if __name__ == '__main__':
    sys.exit(main())
