#!/usr/bin/env python3
"""tools/integrate.py <ID> : bring a builder's branches into /verif main and /repo main.
   - git merge wip-<ID> into /verif (already merged is fine)
   - cherry-pick the commits of fix-<ID> that are not on /repo main, record old->new short hashes
   - rewrite those hashes in known_findings.d/<ID>.json and design/<ID>.md
   - regenerate MANIFEST.json"""
import json, os, re, subprocess, sys
ID = sys.argv[1]
def sh(cmd, cwd=None, check=True):
    p = subprocess.run(cmd, shell=True, cwd=cwd, stdout=subprocess.PIPE, stderr=subprocess.STDOUT, text=True)
    if check and p.returncode:
        print(p.stdout); sys.exit("FAILED: " + cmd)
    return p.stdout
out = sh("git merge --no-edit wip-%s" % ID, cwd="/verif", check=False)
if "CONFLICT" in out:
    sh("git rm -q --cached coq/_CoqProject", cwd="/verif", check=False)
    left = sh("git diff --name-only --diff-filter=U", cwd="/verif").strip()
    if left:
        sys.exit("unresolved conflicts: " + left)
    sh("git commit -qm \"Merge branch 'wip-%s'\"" % ID, cwd="/verif")
print(out[-300:])
base = sh("git merge-base main fix-%s" % ID, cwd="/repo").strip()
commits = sh("git rev-list --reverse %s..fix-%s" % (base, ID), cwd="/repo").split()
mapping = {}
for c in commits:
    subj = sh("git log -1 --format=%%s %s" % c, cwd="/repo").strip()
    # already picked? (same subject on main)
    have = sh("git log --format='%%h %%s' %s..main" % base, cwd="/repo")
    m = [l.split()[0] for l in have.splitlines() if l.split(" ", 1)[1] == subj]
    if m:
        mapping[c] = m[0]; print("already on main:", subj); continue
    if not subj.startswith("fix:"):
        print("SKIP non-fix commit", c[:9], subj); continue
    sh("git cherry-pick %s" % c, cwd="/repo")
    new = sh("git rev-parse --short=9 HEAD", cwd="/repo").strip()
    mapping[c] = new
    print("picked", c[:9], "->", new, subj)
for f in ("known_findings.d/%s.json" % ID, "design/%s.md" % ID):
    p = os.path.join("/verif", f)
    if not os.path.exists(p): continue
    s = open(p).read()
    for old, new in mapping.items():
        for k in range(12, 6, -1):
            s = re.sub(r"\b%s\b" % old[:k], new, s)
    open(p, "w").write(s)
print(sh("python3 tools/mkmanifest.py", cwd="/verif"))
