#!/usr/bin/env python3
"""writes /verif/MANIFEST.json: one check per props/cXX.py plugin that defines MANIFEST = dict(cat=, tech=, text=, note=, ref=)
(and is not marked MANIFEST['claimed'] = False); every other property goes to not_applicable with the reason from NOT_CLAIMED."""
import importlib, json, os, sys
ROOT = os.path.dirname(os.path.dirname(os.path.abspath(__file__)))
sys.path.insert(0, ROOT)
NOT_CLAIMED = {}
DEFAULT_REASON = "check not built yet in this revision (work in progress, see DESIGN.md section 8); not claimed"
props = [json.loads(l) for l in open(os.path.join(ROOT, "properties.jsonl"))]
checks = []
na = []
for p in props:
    pid = p["id"]
    c = None
    if os.path.exists(os.path.join(ROOT, "props", pid.lower() + ".py")):
        mod = importlib.import_module("props." + pid.lower())
        c = getattr(mod, "MANIFEST", None)
        if c is not None and c.get("claimed", True) is False:
            NOT_CLAIMED[pid] = c.get("reason", DEFAULT_REASON)
            c = None
    if c:
        checks.append({
            "property_id": pid,
            "quick_cmd": "./check %s --tier quick" % pid,
            "thorough_cmd": "./check %s --tier thorough" % pid,
            "evidence_file": "/verif/evidence/%s.json" % pid,
            "replay_cmd_template": "./check %s --replay {path}" % pid,
            "engine": "coq+correspondence",
            "level_claimed": {"category": c["cat"], "text": c["text"], "design_ref": c["ref"]},
            "level_note": c["note"],
            "technique": c["tech"],
        })
    else:
        na.append({"property_id": pid, "reason": NOT_CLAIMED.get(pid, DEFAULT_REASON)})
m = {
    "version": 1,
    "setup_cmd": "./setup.sh",
    "hooks": {"guard": "GUDHI_VERIF_HOOKS", "enable": "harnesses are compiled with -DGUDHI_VERIF_HOOKS (vlib/core.py build_harness); one hook exists: "
                                               "src/Ripser/include/gudhi/ripser.h records which simplex encoding help1 selected "
                                               "(verif_hook_last_encoding, add-only, 13 lines); every other observation goes through public members",
              "baseline_off_cmd": "ctest --test-dir /repo/_build -j8 --timeout 900", "source_commits": ["80f8c1166"], "add_only": True},
    "engines": [{"name": "coq+correspondence", "path": "/verif/check", "serves_properties": sorted(c["property_id"] for c in checks),
                 "kind_free_text": "Coq 8.16.1 development under /verif/coq (models, proofs, Properties_<id>.v), extraction to OCaml oracles, "
                                   "C++ harnesses compiled against /repo's working tree, differential comparison"}],
    "checks": checks,
    "not_applicable": na,
    "notes": "see DESIGN.md; known_findings.json lists recorded and fixed defects",
}
json.dump(m, open(os.path.join(ROOT, "MANIFEST.json"), "w"), indent=1)
print("MANIFEST.json: %d checks, %d not claimed" % (len(checks), len(na)))
