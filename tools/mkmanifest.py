#!/usr/bin/env python3
"""writes /verif/MANIFEST.json from the table below (kept here so that the file stays valid and consistent)"""
import json, os
ROOT = os.path.dirname(os.path.dirname(os.path.abspath(__file__)))
CHECKS = {
 "C10": dict(cat="proof", tech="Coq proof of algorithm models (wrap-around arithmetic) + exhaustive differential correspondence with the C++",
   text="Coq theorems (unbounded in the operands, all moduli below 2^32 resp. the documented bounds) that the transcribed helpers "
        "_add/_subtract/_multiply/get_value/fused ops/times_minus/plus_times_equal compute exact residues, that the inverse table holds "
        "inverses and is complete for primes; the transcription is tied to the C++ by running both on identical operation lines, "
        "exhaustively for small primes and small prime ranges and boundary-directed beyond, over all 13 classes; the partial-inverse "
        "specification is a decidable predicate evaluated on every answer.",
   note="Trusted: Coq kernel, extraction+OCaml driver, the hand transcription (validated by the differential run), g++/GMP. "
        "Not proved in Coq (kept as *_full definitions, evaluated per input): refusal of composites, extended-Euclid inverse, CRT partial inverse.",
   ref="DESIGN.md section 4 C10"),
}
NOT_YET = {}
props = [json.loads(l) for l in open(os.path.join(ROOT, "properties.jsonl"))]
checks = []
na = []
for p in props:
    pid = p["id"]
    if pid in CHECKS:
        c = CHECKS[pid]
        checks.append({
            "property_id": pid,
            "quick_cmd": "./check %s --tier quick" % pid,
            "thorough_cmd": "./check %s --tier thorough" % pid,
            "evidence_file": "/verif/evidence/%s.json" % pid,
            "replay_cmd_template": "./check %s --replay {path}" % pid,
            "engine": "coq+correspondence",
            "level_claimed": {"category": c["cat"], "text": c["text"], "design_ref": c["ref"]},
            "level_note": c["note"],
            "technique": c["tech"],
        })
    else:
        na.append({"property_id": pid, "reason": NOT_YET.get(pid, "check not built yet in this revision (work in progress, see DESIGN.md section 8); not claimed")})
m = {
    "version": 1,
    "setup_cmd": "./setup.sh",
    "hooks": {"guard": "GUDHI_VERIF_HOOKS", "enable": "harnesses are compiled with -DGUDHI_VERIF_HOOKS; no hook is currently needed (all observations go through public members)",
              "baseline_off_cmd": "ctest --test-dir /repo/_build -j8 --timeout 900", "source_commits": [], "add_only": True},
    "engines": [{"name": "coq+correspondence", "path": "/verif/check", "serves_properties": sorted(CHECKS),
                 "kind_free_text": "Coq 8.16.1 development under /verif/coq (models, proofs, Properties_<id>.v), extraction to OCaml oracles, "
                                   "C++ harnesses compiled against /repo's working tree, differential comparison"}],
    "checks": checks,
    "not_applicable": na,
    "notes": "see DESIGN.md; known_findings.json lists recorded and fixed defects",
}
json.dump(m, open(os.path.join(ROOT, "MANIFEST.json"), "w"), indent=1)
print("MANIFEST.json: %d checks, %d not claimed" % (len(checks), len(na)))
