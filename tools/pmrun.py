#!/usr/bin/env python3
"""debug aid: tools/pmrun.py <replay.json | -> [flags KEY=VAL ...]  : run one PM script through harness and oracle, print both"""
import json, sys, os
sys.path.insert(0, os.path.dirname(os.path.dirname(os.path.abspath(__file__))))
from vlib import core
from props import pm_common as pm
r = json.load(open(sys.argv[1]))
case = r["case"]
c = pm.Cfg(case["kind"], case["options"]["COLT"]); c.d = dict(case["options"])
for kv in sys.argv[2:]:
    k, v = kv.split("="); c.d[k] = int(v) if v.isdigit() else v
ctx = core.Ctx("C06", "quick", 1)
b = ctx.build_harness("pm_drv.cpp", c.tag, c.flags)
o = ctx.build_oracle("pm")
rc, out, err = ctx.run_bin(b, "\n".join(case["script"]) + "\n", timeout=60)
print(out[-6000:]); print("rc", rc, err[-500:])
rc2, out2, err2 = ctx.run_bin(o, out, args=["chain" if c.kind == "chain" else c.kind, "ident" if c.d["IDX"] == "IDENTIFIER" else "other"])
print(out2, err2[-500:])
