#!/usr/bin/env python3
"""debug aid: shrink a failing PM replay by deleting operations (keeping only histories whose preconditions hold)"""
import json, sys, os
sys.path.insert(0, os.path.dirname(os.path.dirname(os.path.abspath(__file__))))
from vlib import core
from props import pm_common as pm
r = json.load(open(sys.argv[1]))
case = r["case"]
c = pm.Cfg(case["kind"], case["options"]["COLT"]); c.d = dict(case["options"])
ctx = core.Ctx("C06", "quick", 1)
b = ctx.build_harness("pm_drv.cpp", c.tag, c.flags)
o = ctx.build_oracle("pm")
chain = c.kind == "chain"
with_rep = any(l.startswith("REP") for l in case["script"])

def valid(ops):
    order, rowids, bds, uid = [], [], {}, 0
    for l in ops:
        w = l.split()
        if w[0] == "I":
            ents = [int(t.split(":")[0]) for t in w[3:]]
            try:
                faces = set((order[[x[1] for x in order].index(e)][0]) if chain else order[rowids.index(e)][0] for e in ents)
            except ValueError:
                return False
            if int(w[1]) in rowids or (rowids and int(w[1]) < max(rowids)): return False
            uid += 1
            bds[uid] = faces
            order.append((uid, int(w[1]))); rowids.append(int(w[1]))
        elif w[0] in ("VS", "VZ"):
            k = int(w[1])
            if k + 1 >= len(order) or order[k][0] in bds[order[k + 1][0]]: return False
            order[k], order[k + 1] = order[k + 1], order[k]
        elif w[0] == "RL":
            if not order: return False
            order.pop(); rowids.pop()
        elif w[0] == "RM":
            k = int(w[1])
            if k >= len(order) or any(order[k][0] in bds[x[0]] for x in order): return False
            order.pop(k); rowids.pop()
    return True

def fails(ops):
    lines = ["CASE s", "NEW 2"]
    for l in ops:
        lines.append(l); lines.append("DUMP")
        if c.d.get("REP") and with_rep: lines.append("REP")
    rc, out, err = ctx.run_bin(b, "\n".join(lines) + "\n", timeout=20)
    if rc != 0: return True
    rc2, out2, err2 = ctx.run_bin(o, out, args=["chain" if chain else c.kind, "ident" if c.d["IDX"] == "IDENTIFIER" else "other"])
    fl = [x for x in out2.split("\n") if "FAIL" in x]
    return bool(fl) and pm.classify(fl[0]) == pm.classify(r["what"])

ops = [l for l in case["script"][2:] if not l.startswith("DUMP") and not l.startswith("REP")]
assert valid(ops), "original invalid?"
assert fails(ops), "does not fail"
changed = True
while changed:
    changed = False
    for i in range(len(ops) - 1, -1, -1):
        cand = ops[:i] + ops[i + 1:]
        if valid(cand) and fails(cand):
            ops = cand; changed = True
print(" ; ".join(ops))
