#!/usr/bin/env python3
"""tools/seed_validate.py <PROPERTY-ID> <dir with patch.diff, demo.*, build.sh, meta.json> [name]

Confirms a seeded breaking change independently and records whether the check catches it:
  1. in the scratch worktree /var/tmp/seedwt (own _build, synced to /repo HEAD): apply the patch, incremental build,
     run the whole existing test suite -> must equal the baseline (138 stable tests pass);
  2. the demonstration must FAIL with the patch and PASS without it (built against the scratch worktree);
  3. apply the patch to /repo, run `./check <ID> --tier quick`, undo it with `git apply -R` straight afterwards;
  4. write /verif/seeded/<ID>-<name>/ {patch.diff, demo files, meta.json} when 1 and 2 hold.
Nothing is ever committed to /repo."""
import json, os, re, shutil, subprocess, sys, time

WT = os.environ.get("SEEDWT", "/var/tmp/seedwt")
ROOT = os.path.dirname(os.path.dirname(os.path.abspath(__file__)))


def sh(cmd, cwd=None, timeout=7200):
    p = subprocess.run(cmd, shell=True, cwd=cwd, stdout=subprocess.PIPE, stderr=subprocess.STDOUT, text=True, timeout=timeout)
    return p.returncode, p.stdout


def baseline():
    b = json.load(open("/root/.vp/BASELINE.json"))
    return set(x.split("::")[0] for x in b["stable_pass"])


def run_suite():
    rc, out = sh("ctest --test-dir %s/_build -j8 --timeout 900" % WT)
    failed = set(re.findall(r"^\s*\d+ - (\S+) \(", out, re.M))
    m = re.search(r"(\d+)% tests passed, (\d+) tests failed out of (\d+)", out)
    return failed, (m.group(0) if m else out[-300:])


def build_demo(d, tag):
    """build the demonstration against the scratch worktree; returns (ok, how to run)"""
    bs = os.path.join(d, "build.sh")
    work = "/var/tmp/seed-demo-%s-%s" % (os.path.basename(WT), tag)
    shutil.rmtree(work, ignore_errors=True)
    shutil.copytree(d, work)
    if os.path.exists(os.path.join(work, "demo.py")) and not os.path.exists(os.path.join(work, "demo.cpp")):
        return True, "python3 demo.py", work, ""
    cmd = None
    if os.path.exists(bs):
        txt = open(bs).read()
        txt = re.sub(r"/tmp/mut\d*/wt-C\d\d", WT, txt)
        txt = re.sub(r"/tmp/mut\d*/out\d?/C\d\d/m\d", work, txt)
        open(os.path.join(work, "build.sh"), "w").write(txt)
        cmd = "sh ./build.sh"
    else:
        inc = " ".join("-I%s/src/%s/include" % (WT, m) for m in sorted(os.listdir(WT + "/src")) if os.path.isdir("%s/src/%s/include" % (WT, m)))
        cmd = "g++ -std=c++17 -O1 %s -I/usr/include/eigen3 demo.cpp -o demo -ltbb -lgmpxx -lgmp -lpthread" % inc
    rc, out = sh(cmd, cwd=work, timeout=1800)
    exe = None
    for cand in ("demo", "a.out", "demo_bin", "demo.out"):
        if os.path.exists(os.path.join(work, cand)):
            exe = "./" + cand
            break
    if exe is None:
        # any new executable file
        for f in os.listdir(work):
            p = os.path.join(work, f)
            if os.access(p, os.X_OK) and not f.endswith((".sh", ".py", ".cpp")) and os.path.isfile(p):
                exe = "./" + f
    # build.sh of some seeds also runs the demo (non-zero status with the patch): an executable is what counts
    return (exe is not None), exe, work, out[-1500:]


def run_demo(exe, work):
    rc, out = sh("timeout 600 " + exe, cwd=work, timeout=700)
    fail = rc != 0 or re.search(r"\bFAIL", out) is not None
    return (not fail), rc, out[-800:]


def main():
    pid, d = sys.argv[1], os.path.abspath(sys.argv[2])
    name = sys.argv[3] if len(sys.argv) > 3 else os.path.basename(d)
    patch = os.path.join(d, "patch.diff")
    report = {"property": pid, "source_dir": d, "when": time.strftime("%Y-%m-%d %H:%M:%S")}
    head = sh("git rev-parse HEAD", cwd="/repo")[1].strip()
    sh("git checkout -q -- . ; git checkout -q --detach %s" % head, cwd=WT)
    report["repo_head"] = head
    rc, out = sh("git apply --check %s" % patch, cwd=WT)
    if rc != 0:
        report["error"] = "patch does not apply to /repo HEAD: " + out[-500:]
        print(json.dumps(report, indent=1)); return 2
    # --- unpatched: demo passes (header-only library: the demo needs no build of the test suite)
    ok, exe, work, blog = build_demo(d, "orig")
    if not ok:
        report["error"] = "demo does not build on the unpatched tree: " + blog
        print(json.dumps(report, indent=1)); return 2
    p0, rc0, out0 = run_demo(exe, work)
    report["demo_passes_without_patch"] = p0
    report["demo_output_without_patch"] = out0[-300:]
    # --- patched: compiles, suite passes, demo fails
    sh("git apply %s" % patch, cwd=WT)
    prev = None
    if "--reuse-suite" in sys.argv:
        try:
            prev = json.load(open(d + ".report.json.prev"))
        except Exception:
            prev = None
    if prev and prev.get("existing_tests_pass") is not None:
        for k in ("build_with_patch_ok", "build_s", "suite_summary_with_patch", "stable_tests_failing_with_patch", "existing_tests_pass"):
            report[k] = prev.get(k)
        report["suite_reused_from_earlier_run_at_repo_head"] = prev.get("repo_head")
    else:
        t = time.time()
        rc, out = sh("nice -n 3 ninja -C %s/_build -j12 2>&1 | tail -5" % WT)
        report["build_with_patch_ok"] = rc == 0 and "FAILED" not in out
        report["build_s"] = round(time.time() - t)
        failed, summary = run_suite()
        base = baseline()
        report["suite_summary_with_patch"] = summary
        report["stable_tests_failing_with_patch"] = sorted(failed & base)
        report["existing_tests_pass"] = report["build_with_patch_ok"] and not (failed & base)
    ok, exe, work, blog = build_demo(d, "mut")
    if ok:
        p1, rc1, out1 = run_demo(exe, work)
        report["demo_fails_with_patch"] = not p1
        report["demo_output_with_patch"] = out1[-300:]
    else:
        report["demo_fails_with_patch"] = None
        report["demo_build_error_with_patch"] = blog
    sh("git apply -R %s" % patch, cwd=WT)
    shutil.rmtree("/var/tmp/seed-demo-%s-orig" % os.path.basename(WT), ignore_errors=True)
    shutil.rmtree("/var/tmp/seed-demo-%s-mut" % os.path.basename(WT), ignore_errors=True)
    valid = bool(report["existing_tests_pass"] and report["demo_fails_with_patch"] and report["demo_passes_without_patch"])
    report["valid_seed"] = valid
    # --- does the check catch it?  (patch applied to the scratch worktree, check run from a scratch worktree of /verif
    #     with VERIF_REPO pointing there: same as applying to /repo, but /repo and /verif/evidence stay untouched)
    if valid and "--no-check" not in sys.argv:
        SV = os.environ.get("SEEDVERIF", "/var/tmp/seedverif")
        sh("git checkout -q -f --detach %s" % sh("git rev-parse main", cwd=ROOT)[1].strip(), cwd=SV)
        report["verif_commit"] = sh("git rev-parse --short HEAD", cwd=SV)[1].strip()
        rc, out = sh("git apply %s" % patch, cwd=WT)
        if rc == 0:
            try:
                t = time.time()
                rc, out = sh("VERIF_REPO=%s ./check %s --tier quick" % (WT, pid), cwd=SV, timeout=7200)
                report["check_rc"] = rc
                report["check_s"] = round(time.time() - t)
                report["check_lines"] = [l[:400] for l in out.splitlines() if l.startswith(("VIOLATION", "KNOWN-FINDING", "  ->"))][:12]
                report["caught"] = rc == 1 and any(l.startswith("VIOLATION property=%s" % pid) for l in out.splitlines())
                if not report["caught"]:
                    report["check_tail"] = out[-1500:]
            finally:
                sh("git apply -R %s" % patch, cwd=WT)
        else:
            report["error"] = "patch does not apply: " + out[-300:]
    if valid:
        dst = os.path.join(ROOT, "seeded", "%s-%s" % (pid, name))
        os.makedirs(dst, exist_ok=True)
        for f in os.listdir(d):
            q = os.path.join(d, f)
            if not os.path.isfile(q) or os.path.getsize(q) > 200000:
                continue
            with open(q, "rb") as fh:
                if fh.read(4) == b"\x7fELF":
                    continue
            if f.endswith((".log", ".o")):
                continue
            shutil.copy(q, dst)
        meta = {}
        try:
            meta = json.load(open(os.path.join(d, "meta.json")))
        except Exception:
            pass
        meta["property"] = pid
        meta["confirmed_by_seed_validate"] = {k: report.get(k) for k in (
            "repo_head", "existing_tests_pass", "suite_summary_with_patch", "demo_passes_without_patch", "demo_fails_with_patch",
            "check_rc", "caught", "check_lines", "check_s", "when")}
        meta["what_was_run"] = ("scratch worktree /var/tmp/seedwt at /repo HEAD: git apply, ninja incremental build of every test, ctest (all 140), "
                                "demo built and run with and without the patch; then, with the patch applied there, VERIF_REPO=/var/tmp/seedwt ./check %s --tier quick "
                                "from a scratch worktree of /verif (equivalent to git -C /repo apply; ./check; undo), patch reverted afterwards" % pid)
        json.dump(meta, open(os.path.join(dst, "meta.json"), "w"), indent=1)
    print(json.dumps(report, indent=1))
    return 0


if __name__ == "__main__":
    sys.exit(main())
