#!/usr/bin/env python3
"""prints the per-property status table (markdown) from MANIFEST.json, evidence/*.json and the known-findings files"""
import glob, json, os, re
ROOT = os.path.dirname(os.path.dirname(os.path.abspath(__file__)))
man = json.load(open(os.path.join(ROOT, "MANIFEST.json")))
fixed, found = {}, {}
for f in [os.path.join(ROOT, "known_findings.json")] + sorted(glob.glob(os.path.join(ROOT, "known_findings.d", "*.json"))):
    kk = json.load(open(f))
    for x in kk.get("fixed", []):
        m = re.match(r"fixed: property=(C\d+)", x)
        fixed[m.group(1)] = fixed.get(m.group(1), 0) + 1
    for x in kk.get("findings", []):
        found[x["property"]] = found.get(x["property"], 0) + 1
seeds = {}
for d in sorted(glob.glob(os.path.join(ROOT, "seeded", "*"))):
    try:
        m = json.load(open(os.path.join(d, "meta.json")))
    except Exception:
        continue
    p = m.get("property")
    c = (m.get("confirmed_by_seed_validate") or {}).get("caught")
    s = seeds.setdefault(p, [0, 0])
    s[0] += 1
    s[1] += 1 if c else 0
print("| prop | level | theorems | quick: cases / distinct | defects repaired | recorded findings | seeded changes caught |")
print("|---|---|---|---|---|---|---|")
for c in man["checks"]:
    p = c["property_id"]
    ev = {}
    try:
        ev = json.load(open(os.path.join(ROOT, "evidence", p + ".json")))
    except Exception:
        pass
    cov = ev.get("coverage", {})
    s = seeds.get(p)
    print("| %s | %s | %s/%s | %s / %s | %d | %d | %s |" % (p, c["level_claimed"]["category"], cov.get("discharged", "?"), cov.get("obligations", "?"),
          cov.get("evaluations", "?"), cov.get("distinct_nontrivial", "?"), fixed.get(p, 0), found.get(p, 0), ("%d of %d" % (s[1], s[0])) if s else "-"))
for n in man.get("not_applicable", []):
    print("| %s | not claimed | | | %d | %d | |" % (n["property_id"], fixed.get(n["property_id"], 0), found.get(n["property_id"], 0)))

if "--seeds" in __import__("sys").argv:
    print()
    print("| seeded change | what it breaks / what it needs to manifest | existing tests | demo | quick check |")
    print("|---|---|---|---|---|")
    for d in sorted(glob.glob(os.path.join(ROOT, "seeded", "*"))):
        try:
            m = json.load(open(os.path.join(d, "meta.json")))
        except Exception:
            continue
        c = m.get("confirmed_by_seed_validate") or {}
        first = ""
        for l in c.get("check_lines") or []:
            if l.startswith("  ->"):
                first = l[5:].split(":")[0] + ":" + l[5:].split(":")[1] if ":" in l[5:] else l[5:60]
                break
        print("| %s | %s — needs: %s | %s | fails with / passes without | %s |" % (
            os.path.basename(d), (m.get("summary") or "")[:220].replace("|", "/"), (str(m.get("needs_to_manifest")) or "")[:260].replace("|", "/"),
            "pass" if c.get("existing_tests_pass") else "?", ("VIOLATION (%s)" % first[:60]) if c.get("caught") else "not reported"))
