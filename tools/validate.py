#!/opt/veriftools/pyvenv/bin/python
import json, jsonschema, sys, glob
jsonschema.validate(json.load(open('/verif/MANIFEST.json')), json.load(open('/root/.vp/MANIFEST.schema.json')))
es = json.load(open('/root/.vp/EVIDENCE.schema.json'))
for f in sorted(f for f in glob.glob('/verif/evidence/C*.json') if not f.endswith('.noproof.json')):
    jsonschema.validate(json.load(open(f)), es)
    print('ok', f)
print('manifest ok')
