"""Common machinery of /verif/check: Coq build, extraction, oracle and harness builds,
run/diff helpers, known findings, evidence.  Python 3 standard library only."""
import hashlib, json, os, random, re, shutil, subprocess, sys, time

ROOT = os.path.dirname(os.path.dirname(os.path.abspath(__file__)))
REPO = os.environ.get("VERIF_REPO", "/repo")
COQ = os.path.join(ROOT, "coq")
CACHE = os.path.join(ROOT, ".cache")
BIN = os.path.join(CACHE, "bin")
REPLAYS = os.path.join(ROOT, "replays")
EVID = os.path.join(ROOT, "evidence")
NPROC = os.cpu_count() or 4

FORBIDDEN = re.compile(r"\b(Admitted|admit|Axiom|Axioms|Parameter|Parameters|Conjecture|Admit Obligations)\b"
                       r"|Unset\s+Guard|bypass_check|type-in-type|impredicative-set|Unset\s+Universe\s+Checking"
                       r"|Unset\s+Positivity")
# axioms of Coq's standard library that a theorem may depend on (named in the trusted base)
ALLOWED_AXIOMS = {
    "functional_extensionality_dep", "proof_irrelevance", "classic", "JMeq_eq", "eq_rect_eq",
    "propositional_extensionality", "constructive_indefinite_description",
    "ClassicalDedekindReals.sig_forall_dec", "ClassicalDedekindReals.sig_not_dec",
    "FunctionalExtensionality.functional_extensionality_dep",
}


def sh(cmd, timeout=3600, cwd=None, input=None, env=None):
    """run a command, return (rc, stdout+stderr)"""
    e = dict(os.environ)
    if env:
        e.update(env)
    try:
        p = subprocess.run(cmd, shell=isinstance(cmd, str), cwd=cwd, input=input, stdout=subprocess.PIPE,
                           stderr=subprocess.STDOUT, timeout=timeout, env=e, text=True, errors="replace")
        return p.returncode, p.stdout
    except subprocess.TimeoutExpired as ex:
        out = ex.stdout or ""
        if isinstance(out, bytes):
            out = out.decode("utf8", "replace")
        return 124, out + "\n[timeout after %ss]" % timeout


def sh_out(cmd, timeout=3600, cwd=None, input=None, env=None, cpu=None):
    """run a command, return (rc, stdout, stderr) with the two streams kept apart.
    cpu = limit in CPU seconds (RLIMIT_CPU): unlike the wall-clock timeout it does not depend on the machine's load;
    a process killed by it is reported with rc 124 like a timeout"""
    e = dict(os.environ)
    if env:
        e.update(env)
    pre = None
    if cpu:
        import resource

        def pre():
            resource.setrlimit(resource.RLIMIT_CPU, (int(cpu), int(cpu) + 2))
    try:
        p = subprocess.run(cmd, shell=isinstance(cmd, str), cwd=cwd, input=input, stdout=subprocess.PIPE,
                           stderr=subprocess.PIPE, timeout=timeout, env=e, text=True, errors="replace", preexec_fn=pre)
        if cpu and p.returncode in (-24, -9, 152, 137):
            return 124, p.stdout, p.stderr + "\n[CPU limit of %ss exceeded]" % cpu
        return p.returncode, p.stdout, p.stderr
    except subprocess.TimeoutExpired as ex:
        def dec(x):
            if x is None:
                return ""
            return x.decode("utf8", "replace") if isinstance(x, bytes) else x
        return 124, dec(ex.stdout), dec(ex.stderr) + "\n[timeout after %ss]" % timeout


def sha256_files(paths):
    h = hashlib.sha256()
    for p in sorted(paths):
        h.update(p.encode())
        try:
            with open(p, "rb") as f:
                h.update(f.read())
        except OSError:
            h.update(b"<missing>")
    return h.hexdigest()


_repo_hash = None


def repo_headers_hash():
    """hash of every header under /repo/src/*/include (any edit there forces harness rebuilds)"""
    global _repo_hash
    if _repo_hash is None:
        files = []
        for d, _, fs in os.walk(os.path.join(REPO, "src")):
            if "/include" not in d and not d.endswith("include"):
                continue
            for f in fs:
                files.append(os.path.join(d, f))
        _repo_hash = sha256_files(files)
    return _repo_hash


def release_flags(tag):
    """half of the build variants of a check are release builds (NDEBUG: GUDHI_CHECK and assert compiled out), chosen by a CRC
    of the variant tag and the parity of VERIF_SEED (so that two consecutive seeds cover both builds of every variant)"""
    import zlib
    try:
        seed = int(os.environ.get("VERIF_SEED", "1"))
    except ValueError:
        seed = 1
    return ["-DNDEBUG"] if (zlib.crc32(str(tag).encode()) + seed) % 2 == 0 else []


def include_flags():
    fl = []
    src = os.path.join(REPO, "src")
    for m in sorted(os.listdir(src)):
        inc = os.path.join(src, m, "include")
        if os.path.isdir(inc):
            fl.append("-I" + inc)
    fl.append("-I/usr/include/eigen3")
    return fl


class CheckError(Exception):
    pass


def write_coqproject():
    """coq/_CoqProject lists every .v file of coq/ (and coq/gen/); rewritten only when the list changes"""
    cp = os.path.join(COQ, "_CoqProject")
    files = sorted(f for f in os.listdir(COQ) if f.endswith(".v"))
    gen = os.path.join(COQ, "gen")
    if os.path.isdir(gen):
        files += sorted("gen/" + f for f in os.listdir(gen) if f.endswith(".v"))
    txt = "-R . Verif\n-arg -w -arg -deprecated-since-8.16\n" + "\n".join(files) + "\n"
    old = open(cp).read() if os.path.exists(cp) else None
    if old != txt:
        with open(cp, "w") as f:
            f.write(txt)
    return cp


class Ctx:
    def __init__(self, prop, tier, seed):
        self.prop = prop
        self.tier = tier
        self.seed = seed
        self.rng = random.Random(seed * 1000003 + sum(map(ord, prop)))
        self.t0 = time.time()
        self.log_lines = []
        self.proof = None
        os.makedirs(BIN, exist_ok=True)
        os.makedirs(REPLAYS, exist_ok=True)
        os.makedirs(EVID, exist_ok=True)

    def log(self, *a):
        s = " ".join(str(x) for x in a)
        self.log_lines.append(s)
        print("[%s %6.1fs] %s" % (self.prop, time.time() - self.t0, s), flush=True)

    # ---------------------------------------------------------------- Coq
    def coq_makefile(self):
        mk = os.path.join(COQ, "Makefile.coq")
        cp = write_coqproject()
        if (not os.path.exists(mk)) or os.path.getmtime(mk) < os.path.getmtime(cp):
            rc, out = sh("coq_makefile -f _CoqProject -o Makefile.coq", cwd=COQ)
            if rc != 0:
                raise CheckError("coq_makefile failed: " + out)

    def coq_make(self, targets, timeout=3000):
        self.coq_makefile()
        os.makedirs(os.path.join(COQ, "extracted"), exist_ok=True)
        cmd = "timeout %d make -f Makefile.coq -k -j%d %s" % (timeout, NPROC, " ".join(targets))
        rc, out = sh(cmd, cwd=COQ, timeout=timeout + 60)
        return rc, out

    def prove(self, extra_targets=()):
        """build Properties_<prop>.vo (always recompiled) and the extraction file; return proof report"""
        pid = self.prop
        pfile = os.path.join(COQ, "Properties_%s.v" % pid)
        src = open(pfile).read()
        theorems = re.findall(r"^\s*Theorem\s+([A-Za-z0-9_']+)", src, re.M)
        # force recompilation of the properties file so that Print Assumptions output is from this run
        for ext in (".vo", ".glob", ".vos", ".vok"):
            try:
                os.unlink(pfile[:-2] + ext)
            except OSError:
                pass
        targets = ["Properties_%s.vo" % pid] + list(extra_targets)
        t = time.time()
        rc, out = self.coq_make(targets)
        ok = os.path.exists(pfile[:-2] + ".vo")
        # forbidden tokens anywhere in the development
        bad = []
        for f in sorted(os.listdir(COQ)):
            if f.endswith(".v"):
                txt = open(os.path.join(COQ, f)).read()
                txt_nc = re.sub(r"\(\*.*?\*\)", "", txt, flags=re.S)
                for m in FORBIDDEN.finditer(txt_nc):
                    bad.append("%s: %s" % (f, m.group(0)))
                # a Variable / Hypothesis / Context outside a Section declares an axiom
                stack = []
                for ln in txt_nc.splitlines():
                    mm = re.match(r"\s*(Section|Module Type|Module)\s+([A-Za-z0-9_']+)", ln)
                    if mm and ":=" not in ln:
                        stack.append((mm.group(1), mm.group(2)))
                        continue
                    mm = re.match(r"\s*End\s+([A-Za-z0-9_']+)\s*\.", ln)
                    if mm and stack:
                        stack.pop()
                        continue
                    if re.match(r"\s*(Local\s+|Global\s+)?(Variables?|Hypothes[ie]s|Context)\b", ln) and not any(k == "Section" for k, _ in stack):
                        bad.append("%s: %s outside a Section" % (f, ln.strip()[:60]))
        # assumptions printed
        axioms = set()
        closed = 0
        for m in re.finditer(r"Closed under the global context", out):
            closed += 1
        for blk in re.finditer(r"Axioms:\n((?:.+\n)+?)(?=\S|\Z)", out):
            for line in blk.group(1).splitlines():
                mm = re.match(r"^([A-Za-z0-9_.']+)\s*:", line)
                if mm:
                    axioms.add(mm.group(1))
        bad_axioms = sorted(a for a in axioms if a.split(".")[-1] not in ALLOWED_AXIOMS and a not in ALLOWED_AXIOMS)
        discharged = len(theorems) if ok else 0
        failed = []
        if not ok:
            m = re.search(r'File "\./Properties_%s\.v", line (\d+)' % pid, out)
            if m:
                ln = int(m.group(1))
                lines = src.splitlines()
                names_before = re.findall(r"^\s*Theorem\s+([A-Za-z0-9_']+)", "\n".join(lines[:ln]), re.M)
                discharged = max(0, len(names_before) - 1)
                failed = names_before[-1:] if names_before else []
            else:
                m2 = re.search(r'File "\./([A-Za-z0-9_]+\.v)", line (\d+)', out)
                failed = [("(dependency) " + m2.group(1) + ":" + m2.group(2)) if m2 else "(build)"]
        self.proof = {
            "ok": ok and not bad and not bad_axioms,
            "built": ok,
            "theorems": theorems,
            "obligations": len(theorems),
            "discharged": discharged,
            "failed": failed,
            "closed_under_global_context": closed,
            "axioms": sorted(axioms),
            "forbidden": bad,
            "bad_axioms": bad_axioms,
            "wall_s": round(time.time() - t, 1),
            "log_tail": out[-3000:] if not ok else "",
        }
        self.log("coq: %d/%d theorems of Properties_%s.v checked in %.0fs%s" % (
            discharged, len(theorems), pid, time.time() - t, "" if ok else "  ** BUILD FAILED **"))
        if bad:
            self.log("forbidden tokens: " + "; ".join(bad))
        return self.proof

    # ---------------------------------------------------------------- OCaml oracle
    def build_oracle(self, name=None):
        """ocaml/<name>_oracle.ml + coq/extracted/<name>_model.ml -> .cache/bin/<name>_oracle"""
        name = name or self.prop.lower()
        ex = os.path.join(COQ, "extracted")
        ml = os.path.join(ex, "%s_model.ml" % name)
        if not os.path.exists(ml):
            rc, out = self.coq_make(["Extract_%s.vo" % name.upper()])
            if not os.path.exists(ml):
                raise CheckError("extraction of %s failed:\n%s" % (name, out[-2000:]))
        drv = os.path.join(ROOT, "ocaml", "%s_oracle.ml" % name)
        prelude = os.path.join(ROOT, "ocaml", "prelude.ml")
        key = sha256_files([ml, ml + "i", drv, prelude])[:16]
        out_bin = os.path.join(BIN, "%s_oracle_%s" % (name, key))
        if os.path.exists(out_bin):
            return out_bin
        bdir = os.path.join(CACHE, "ocaml_" + name)
        shutil.rmtree(bdir, ignore_errors=True)
        os.makedirs(bdir)
        shutil.copy(ml, bdir)
        shutil.copy(ml + "i", bdir)
        modname = "%s_model" % name
        with open(os.path.join(bdir, "main.ml"), "w") as f:
            f.write("module M = %s\nopen M\n" % (modname[0].upper() + modname[1:]))
            f.write("# 1 \"prelude.ml\"\n" + open(prelude).read() + "\n")
            f.write("# 1 \"%s_oracle.ml\"\n" % name + open(drv).read())
        rc, out = sh("ocamlfind ocamlopt -w -a -package str,unix -linkpkg %s.mli %s.ml main.ml -o %s"
                     % (modname, modname, out_bin), cwd=bdir, timeout=600)
        if not os.path.exists(out_bin):
            raise CheckError("oracle build failed for %s:\n%s" % (name, out[-3000:]))
        return out_bin

    # ---------------------------------------------------------------- C++ harness
    def build_harness(self, src, tag="", flags=(), opt="-O1", timeout=1500, std="-std=c++17", libs=("-ltbb", "-lgmpxx", "-lgmp", "-lpthread")):
        """compile harness/<src> against /repo's current working tree; cached by source+flags+headers hash"""
        spath = os.path.join(ROOT, "harness", src)
        if os.environ.get("VERIF_NDEBUG") == "1" and "-DNDEBUG" not in flags:      # experiment switch: everything as a release build
            flags = list(flags) + ["-DNDEBUG"]
        deps = [spath] + [os.path.join(ROOT, "harness", f) for f in os.listdir(os.path.join(ROOT, "harness")) if f.endswith(".h")]
        key = hashlib.sha256((sha256_files(deps) + repo_headers_hash() + " ".join(flags) + opt + std).encode()).hexdigest()[:16]
        out_bin = os.path.join(BIN, "%s%s_%s" % (os.path.splitext(src)[0], ("_" + tag) if tag else "", key))
        if os.path.exists(out_bin):
            return out_bin
        # drop older builds of the same harness/tag
        prefix = "%s%s_" % (os.path.splitext(src)[0], ("_" + tag) if tag else "")
        for f in os.listdir(BIN):
            if f.startswith(prefix) and len(f) == len(prefix) + 16:
                try:
                    # a build of the last hour may be in use by a concurrent run of the same check against another tree
                    if time.time() - os.path.getmtime(os.path.join(BIN, f)) < 3600:
                        continue
                    os.unlink(os.path.join(BIN, f))
                except OSError:
                    pass
        cmd = ["g++", std, opt, "-g0", "-w", "-DGUDHI_VERIF_HOOKS"] + list(flags) + include_flags() + \
              ["-I" + os.path.join(ROOT, "harness"), spath, "-o", out_bin] + list(libs)
        t = time.time()
        rc, out = sh(cmd, timeout=timeout)
        if rc != 0 or not os.path.exists(out_bin):
            raise CheckError("harness build failed (%s %s):\n%s" % (src, tag, out[-4000:]))
        self.log("built %s%s in %.0fs" % (src, (" [" + tag + "]") if tag else "", time.time() - t))
        return out_bin

    def build_many(self, jobs):
        """jobs: list of (src, tag, flags) built in parallel; returns dict tag->bin"""
        from concurrent.futures import ThreadPoolExecutor
        res = {}
        errs = []

        def one(j):
            try:
                return j[1], self.build_harness(j[0], j[1], j[2], *j[3:])
            except CheckError as e:
                errs.append(str(e))
                return j[1], None
        with ThreadPoolExecutor(max_workers=NPROC) as ex:
            for tag, b in ex.map(one, jobs):
                res[tag] = b
        if errs:
            raise CheckError(errs[0])
        return res

    def run_bin(self, binary, input_text, args=(), timeout=1800, env=None, cpu=None):
        rc, out, err = sh_out([binary] + list(args), input=input_text, timeout=timeout, env=env, cpu=cpu)
        return rc, out, err


def parallel_map(fn, items, workers=None):
    from concurrent.futures import ThreadPoolExecutor
    with ThreadPoolExecutor(max_workers=workers or NPROC) as ex:
        return list(ex.map(fn, items))


# -------------------------------------------------------------------- known findings
def load_known():
    """known_findings.json (committed, never written at run time): 'findings' = recorded genuine defects (suppress the
    matching violation kind, printed as KNOWN-FINDING), 'fixed' = repaired ones (suppress nothing)"""
    p = os.path.join(ROOT, "known_findings.json")
    k = {"findings": [], "fixed": []}
    if os.path.exists(p):
        k = json.load(open(p))
    # per-property fragments (same structure), committed next to the main file
    d = os.path.join(ROOT, "known_findings.d")
    if os.path.isdir(d):
        for f in sorted(os.listdir(d)):
            if f.endswith(".json"):
                kk = json.load(open(os.path.join(d, f)))
                k.setdefault("findings", []).extend(kk.get("findings", []))
                k.setdefault("fixed", []).extend(kk.get("fixed", []))
    return k


# -------------------------------------------------------------------- result / evidence
class Result:
    """what a property plugin returns"""

    def __init__(self):
        self.evaluations = 0
        self.distinct = set()          # canonical keys of distinct non-trivial cases
        self.rule = ""
        self.samples = []
        self.distribution = {}
        self.traces_validated = 0
        self.exhaustive = False
        self.violations = []           # list of dict(kind=..., what=..., case=..., expected=..., observed=...)
        self.notes = []
        self.extra = {}

    def count(self, key, n=1):
        self.distribution[key] = self.distribution.get(key, 0) + n

    def violation(self, kind, what, case, expected=None, observed=None, **kw):
        d = dict(kind=kind, what=what, case=case, expected=expected, observed=observed)
        d.update(kw)
        self.violations.append(d)


def finish(ctx, manifest_entry, res, trusted_base, assumptions, level, checker_cmd, explanation=None, correspondence_name=None):
    """classify violations against the known-findings file, write replays and evidence, print the verdict lines,
    return exit code"""
    pid = ctx.prop
    known = load_known()
    kf = [k for k in known.get("findings", []) if k["property"] == pid]
    new_viol = []
    known_hits = {}
    for v in res.violations:
        hit = None
        for k in kf:
            if k["kind"] == v["kind"]:
                hit = k
                break
        if hit:
            known_hits.setdefault(hit["kind"], [hit, 0])[1] += 1
        else:
            new_viol.append(v)
    proof = ctx.proof or {}
    proof_broken = bool(proof) and not proof.get("ok", False)
    lines = []
    rc = 0
    # group new violations by kind; one replay per kind (smallest case first)
    by_kind = {}
    for v in new_viol:
        by_kind.setdefault(v["kind"], []).append(v)
    for kind, vs in by_kind.items():
        vs.sort(key=lambda v: len(json.dumps(v["case"], default=str)))
        v = vs[0]
        h = hashlib.sha256(json.dumps(v, sort_keys=True, default=str).encode()).hexdigest()[:10]
        path = os.path.join(REPLAYS, "%s-%s.json" % (pid, h))
        json.dump({"property": pid, "tier": ctx.tier, "seed": ctx.seed, "kind": kind, "what": v["what"],
                   "case": v["case"], "expected": v["expected"], "observed": v["observed"],
                   "occurrences_this_run": len(vs),
                   "correspondence": correspondence_name,
                   "replay_cmd": "%s/check %s --replay %s" % (ROOT, pid, path)}, open(path, "w"), indent=1, default=str)
        suffix = " no-failing-input-found" if v.get("no_input") else ""
        lines.append("VIOLATION property=%s replay=%s%s" % (pid, path, suffix))
        print("  -> %s: %s" % (kind, v["what"]))
        rc = 1
    if proof_broken and not new_viol:
        h = hashlib.sha256(json.dumps(proof, sort_keys=True).encode()).hexdigest()[:10]
        path = os.path.join(REPLAYS, "%s-proof-%s.json" % (pid, h))
        json.dump({"property": pid, "tier": ctx.tier, "seed": ctx.seed, "kind": "proof-broken",
                   "theorems_no_longer_checked": proof.get("failed"), "forbidden": proof.get("forbidden"),
                   "bad_axioms": proof.get("bad_axioms"), "log_tail": proof.get("log_tail"),
                   "note": "the development no longer checks; the search over model and implementation found no failing input"},
                  open(path, "w"), indent=1)
        lines.append("VIOLATION property=%s replay=%s no-failing-input-found" % (pid, path))
        rc = 1
    for kind, (k, n) in known_hits.items():
        print("KNOWN-FINDING: property=%s %s (%d occurrences this run; id %s)" % (pid, k["what"], n, k["kind"]))
    for l in lines:
        print(l)
    cov = {
        "obligations": proof.get("obligations", 0),
        "discharged": proof.get("discharged", 0),
        "checker_cmd": checker_cmd,
        "trusted_base": trusted_base,
        "theorems": proof.get("theorems", []),
        "axioms_printed": proof.get("axioms", []),
        "closed_under_global_context": proof.get("closed_under_global_context", 0),
        "evaluations": res.evaluations,
        "distinct_nontrivial": len(res.distinct),
        "rule": res.rule,
        "samples": res.samples[:8],
        "traces_validated_against_impl": res.traces_validated,
        "exhaustive": res.exhaustive,
        "distribution": res.distribution,
        "known_findings_hit": {k: n for k, (_, n) in known_hits.items()},
        "notes": res.notes,
    }
    if explanation:
        cov["explanation"] = explanation
    cov.update(res.extra)
    ev = {
        "property_id": pid, "tier": ctx.tier, "seed": ctx.seed, "level": level,
        "coverage": cov, "assumptions": assumptions,
        "wall_s": round(time.time() - ctx.t0, 1), "violations": len(by_kind) + (1 if (proof_broken and not new_viol) else 0),
    }
    # --no-proof is a development aid: its result is not evidence (no obligations were discharged) and goes elsewhere
    evname = "%s.noproof.json" % pid if getattr(ctx, "skip_proof", False) else "%s.json" % pid
    json.dump(ev, open(os.path.join(EVID, evname), "w"), indent=1, default=str)
    print("[%s] %s: %d evaluations, %d distinct non-trivial, %d/%d theorems, %d new violation kind(s), %.0fs" % (
        pid, ctx.tier, res.evaluations, len(res.distinct), cov["discharged"], cov["obligations"], ev["violations"],
        time.time() - ctx.t0))
    return rc


# -------------------------------------------------------------------- grouped line protocols
# Time lost to harness processes that died (crash, watchdog, CPU limit) in this run.  A change that makes most inputs hang would
# otherwise cost one watchdog period per input: once DEATH_BUDGET_S seconds have gone into dying processes the remaining
# lines are answered "DIED skipped ..." (the deaths seen so far are violations with replays already).  Crashes on the unchanged
# tree (recorded findings) die within milliseconds and never come near the budget.
DEATH_TIME = {}            # per binary (an oracle must not be silenced by a dying harness)
DEATH_BUDGET_S = float(os.environ.get("VERIF_DEATH_BUDGET_S", "900"))


def run_grouped(binary, groups, timeout=1800, max_restarts=40, env=None, cpu=None):
    """groups: list of (header_line, [op lines]).  Feeds header + ops to `binary`, which answers one line per input
    line.  If the process dies (the harnesses print 'CRASH <signal>' from their signal handler) the crashing line gets
    that answer and the process is restarted on the rest of the group.  Returns list of (header_answer, [answers])."""
    results = []
    for (hdr, ops) in groups:
        answers = []
        hdr_ans = None
        start = 0
        restarts = 0
        while True:
            if DEATH_TIME.get(binary, 0.0) > DEATH_BUDGET_S:
                hdr_ans = hdr_ans or "DIED skipped (time budget for dying processes exhausted)"
                answers += ["DIED skipped (time budget for dying processes exhausted)"] * (len(ops) - start)
                break
            text = hdr + "\n" + "\n".join(ops[start:]) + "\n"
            t_run = time.time()
            rc, out, err = sh_out([binary], input=text, timeout=timeout, env=env, cpu=cpu)
            t_run = time.time() - t_run
            lines = out.split("\n")
            if lines and lines[-1] == "":
                lines.pop()
            if not lines:
                if t_run > 20:
                    DEATH_TIME[binary] = DEATH_TIME.get(binary, 0.0) + t_run
                hdr_ans = hdr_ans or ("DIED rc=%d %s" % (rc, err[-200:].replace("\n", " ")))
                answers += ["DIED"] * (len(ops) - start)
                break
            if hdr_ans is None:
                hdr_ans = lines[0]
            got = lines[1:]
            need = len(ops) - start
            if len(got) >= need and rc == 0:
                answers += got[:need]
                break
            # died early (only slow deaths count: hangs, exhausted memory; a crash after a fraction of a second costs nothing)
            if t_run > 20:
                DEATH_TIME[binary] = DEATH_TIME.get(binary, 0.0) + t_run
            if got and got[-1].startswith("CRASH"):
                answers += got
            else:
                answers += got + ["DIED rc=%d %s" % (rc, err[-300:].replace("\n", " "))]
            start = len(answers)
            restarts += 1
            if start >= len(ops):
                break
            if restarts > max_restarts:
                answers += ["DIED"] * (len(ops) - start)
                break
        results.append((hdr_ans, answers[:len(ops)]))
    return results


def run_grouped_parallel(binary, groups, nchunks=None, **kw):
    """split groups into balanced chunks, run them in parallel, keep order"""
    nchunks = nchunks or NPROC
    order = sorted(range(len(groups)), key=lambda i: -len(groups[i][1]))
    loads = [0] * nchunks
    chunks = [[] for _ in range(nchunks)]
    for i in order:
        k = loads.index(min(loads))
        chunks[k].append(i)
        loads[k] += len(groups[i][1]) + 50
    out = [None] * len(groups)

    def work(idx):
        r = run_grouped(binary, [groups[i] for i in idx], **kw)
        return idx, r
    for idx, r in parallel_map(work, [c for c in chunks if c]):
        for i, x in zip(idx, r):
            out[i] = x
    return out
